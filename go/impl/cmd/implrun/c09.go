package main

// C09 — publishing an article. Real posts through bbs.CreateArticle in a scratch BBSHOME (ptt
// fixtures, private shared memory), read back through bbs.GetArticle and bbs.LoadGeneralArticles.
// Scenario: users [SYSOP, test1 (made moderator of WhoAmI), CodingMan (plain verified user)],
// boards [WhoAmI, EditExp]. Every post reports the state before (users' NumPosts from .PASSWDS, per
// board: Shm.Total, .DIR bytes, every other file of the board directory), the observed inputs of the
// model (clock before/after, the math/rand draws Stampfile consumed — the generator is seeded per
// case and replayed), the returned summary, the state after, and the two read-backs.
//
// The clock the code under test reads (types.NowTS) can be moved by op 4 (hook types.VerifSetClockOffset, whole
// seconds): one driver process publishes before and after a local midnight / UTC midnight / month end / new year /
// leap day, a day or a year later at the same time of day, and after the clock was stepped back. t0 / t1 are read
// from types.NowTS, i.e. from that clock. Op 5 asks types.Time4.Cdatemd (the date fhdrStamp records) for a list of
// explicit times, in the given order, inside this one process.
//
// result line: status | t0 t1 r0..r7 err | state | summary | state | fetch | list     (numbers only)
//   state   = nusers numposts.. nboards (total blob(dir) nfiles (blob(name) blob(content))*)* bbusystate (busystateb lastposttime)*
//             (the last group: shared memory SetBTotal has no business with — Shm.BBusyState, and per scenario board
//             Shm.BusyStateB / Shm.LastPostTime; op 3 puts them, and Shm.Total, into unusual but legal conditions)
//   summary = present blob(aid) blob(filename) createtime mtime blob(owner) blob(fulltitle) money filemode blob(class) blob(realtitle) blob(idx)
//   fetch   = err mtime blob(content)
//   list    = err n newest blob(aid) blob(filename) blob(fulltitle) blob(owner)   (last entry of the newest page)

import (
	"math/rand"
	"os"
	"path/filepath"
	"sort"
	"strings"
	"time"

	"github.com/Ptt-official-app/go-pttbbs/bbs"
	"github.com/Ptt-official-app/go-pttbbs/cache"
	"github.com/Ptt-official-app/go-pttbbs/cmbbs"
	"github.com/Ptt-official-app/go-pttbbs/ptttype"
	"github.com/Ptt-official-app/go-pttbbs/types"
)

type c09User struct {
	name string
	uid  ptttype.UID
	priv bool
}
type c09Board struct {
	name string
	bid  ptttype.Bid
	mods []int
}

var (
	c09Users  = []*c09User{{name: "SYSOP", priv: true}, {name: "test1"}, {name: "CodingMan"}}
	c09Boards = []*c09Board{{name: "WhoAmI", mods: []int{1}}, {name: "EditExp"}}
)

func c09Blob(b []byte) []string { return append([]string{oi(int64(len(b)))}, ob(b)...) }

func c09BoardDir(e *bbsEnv, b *c09Board) string {
	return filepath.Join(e.home, "boards", b.name[:1], b.name)
}

func c09Prepare(e *bbsEnv) {
	for _, u := range c09Users {
		id := &ptttype.UserID_t{}
		copy(id[:], u.name)
		uid, err := cache.SearchUserRaw(id, nil)
		if err != nil || !uid.IsValid() {
			panic("C09: fixture user missing: " + u.name)
		}
		u.uid = uid
	}
	for _, b := range c09Boards {
		id := &ptttype.BoardID_t{}
		copy(id[:], b.name)
		bid, err := cache.GetBid(id)
		if err != nil || !bid.IsValid() {
			panic("C09: fixture board missing: " + b.name)
		}
		b.bid = bid
		if len(b.mods) > 0 {
			names := []string{}
			for _, m := range b.mods {
				names = append(names, c09Users[m].name)
			}
			brd := &cache.Shm.Shm.BCache[bid-1]
			brd.BM = ptttype.BM_t{}
			copy(brd.BM[:], strings.Join(names, "/"))
			cache.Shm.Shm.BMCache[bid-1] = *cache.ParseBMList(&brd.BM)
		}
	}
}

func c09State(e *bbsEnv) []string {
	out := []string{oi(int64(len(c09Users)))}
	for _, u := range c09Users {
		rec, err := cmbbs.PasswdQuery(u.uid)
		if err != nil {
			panic(err)
		}
		out = append(out, ou(uint64(rec.NumPosts)))
	}
	out = append(out, oi(int64(len(c09Boards))))
	for _, b := range c09Boards {
		dir := c09BoardDir(e, b)
		out = append(out, oi(int64(cache.Shm.Shm.Total[b.bid-1])))
		d, err := os.ReadFile(filepath.Join(dir, ".DIR"))
		if err != nil && !os.IsNotExist(err) {
			panic(err)
		}
		out = append(out, c09Blob(d)...)
		ents, err := os.ReadDir(dir)
		if err != nil {
			panic(err)
		}
		names := []string{}
		for _, en := range ents {
			if en.Name() != ".DIR" {
				names = append(names, en.Name())
			}
		}
		sort.Strings(names)
		out = append(out, oi(int64(len(names))))
		for _, n := range names {
			c, err := os.ReadFile(filepath.Join(dir, n))
			if err != nil {
				c = []byte("<unreadable>")
			}
			out = append(out, c09Blob([]byte(n))...)
			out = append(out, c09Blob(c)...)
		}
	}
	out = append(out, oi(int64(cache.Shm.Shm.BBusyState)))
	for _, b := range c09Boards {
		out = append(out, oi(int64(cache.Shm.Shm.BusyStateB[b.bid-1])), oi(int64(cache.Shm.Shm.LastPostTime[b.bid-1])))
	}
	return out
}

// c09SetEnv: op 3 | kb vb | (k_busyb v k_total v k_lastpost v) per scenario board
//
//	k = 0 leave, 1 set to v; total also: 2 = somebody lists the board (cache.GetBTotalWithRetry), 3 = index length + v;
//	busystateb / lastposttime also: 3 = now + v. The listing (2) is done first, with the global flag clear, then the
//	per-board values, then Shm.BBusyState — the state a loader / a ResetBoard that went away has left behind.
func c09SetEnv(e *bbsEnv, args [][]string) {
	if len(args) != 2+len(c09Boards) || len(args[1]) != 2 {
		panic("badcase:env")
	}
	now := int64(types.NowTS())
	for i, b := range c09Boards {
		g := args[2+i]
		if len(g) != 6 {
			panic("badcase:env")
		}
		if ai(g[2]) == 2 {
			cache.Shm.Shm.BBusyState = 0
			if _, err := cache.GetBTotalWithRetry(b.bid); err != nil {
				panic(err)
			}
		}
	}
	for i, b := range c09Boards {
		g := args[2+i]
		switch ai(g[0]) {
		case 1:
			cache.Shm.Shm.BusyStateB[b.bid-1] = types.Time4(ai(g[1]))
		case 3:
			cache.Shm.Shm.BusyStateB[b.bid-1] = types.Time4(now + ai(g[1]))
		}
		switch ai(g[2]) {
		case 1:
			cache.Shm.Shm.Total[b.bid-1] = int32(ai(g[3]))
		case 3:
			st, err := os.Stat(filepath.Join(c09BoardDir(e, b), ".DIR"))
			n := int64(0)
			if err == nil {
				n = st.Size() / int64(ptttype.FILE_HEADER_RAW_SZ)
			}
			cache.Shm.Shm.Total[b.bid-1] = int32(n + ai(g[3]))
		}
		switch ai(g[4]) {
		case 1:
			cache.Shm.Shm.LastPostTime[b.bid-1] = types.Time4(ai(g[5]))
		case 3:
			cache.Shm.Shm.LastPostTime[b.bid-1] = types.Time4(now + ai(g[5]))
		}
	}
	if ai(args[1][0]) == 1 {
		cache.Shm.Shm.BBusyState = int32(ai(args[1][1]))
	}
}

func c09Lines(toks []string) [][]byte {
	n := int(ai(toks[0]))
	p := 1
	lines := make([][]byte, 0, n)
	for i := 0; i < n; i++ {
		l := int(ai(toks[p]))
		lines = append(lines, ab(toks[p+1:p+1+l]))
		p += 1 + l
	}
	if p != len(toks) {
		panic("badcase:lines")
	}
	if n == 0 {
		return nil
	}
	return lines
}

func c09Summary(s *bbs.ArticleSummary) []string {
	if s == nil {
		return []string{"0"}
	}
	out := []string{"1"}
	out = append(out, c09Blob([]byte(s.ArticleID))...)
	out = append(out, c09Blob([]byte(s.Filename))...)
	out = append(out, oi(int64(s.CreateTime)), oi(int64(s.MTime)))
	out = append(out, c09Blob([]byte(s.Owner))...)
	out = append(out, c09Blob(s.FullTitle)...)
	out = append(out, oi(int64(s.Money)), oi(int64(s.Filemode)))
	out = append(out, c09Blob(s.Class)...)
	out = append(out, c09Blob(s.RealTitle)...)
	out = append(out, c09Blob([]byte(s.Idx))...)
	return out
}

func init() {
	var env *bbsEnv
	register("C09", &propDriver{
		setup: func() {
			env = newBBSEnv("ptt", true)
			c09Prepare(env)
		},
		teardown: func() { env.close() },
		run: func(args [][]string) []string {
			switch ai(args[0][0]) {
			case 0: // scenario: users (priv, uid, id13, nick) and boards (bid, name13, mods)
				out := []string{oi(int64(len(c09Users)))}
				for _, u := range c09Users {
					rec, err := cmbbs.PasswdQuery(u.uid)
					if err != nil {
						panic(err)
					}
					out = append(out, obool(u.priv), oi(int64(u.uid)), ou(uint64(rec.UserLevel)))
					out = append(out, c09Blob(rec.UserID[:])...)
					out = append(out, c09Blob(rec.Nickname[:])...)
				}
				out = append(out, oi(int64(len(c09Boards))))
				for _, b := range c09Boards {
					brd := &cache.Shm.Shm.BCache[b.bid-1]
					out = append(out, oi(int64(b.bid)), ou(uint64(brd.BrdAttr)))
					out = append(out, c09Blob(brd.Brdname[:])...)
					out = append(out, oi(int64(len(b.mods))))
					for _, m := range b.mods {
						out = append(out, oi(int64(m)))
					}
				}
				return ok(out...)
			case 2: // back to the fixture state: the scenario boards, the log boards, .PASSWDS, .post
				names := []string{"ALLPOST", "ALLHIDPOST"}
				for _, b := range c09Boards {
					names = append(names, b.name)
				}
				for _, n := range names {
					dst := filepath.Join(env.home, "boards", n[:1], n)
					os.RemoveAll(dst)
					must(copyTree(filepath.Join(env.repo, "ptt", "testcase", "boards1", n[:1], n), dst))
					id := &ptttype.BoardID_t{}
					copy(id[:], n)
					if bid, err := cache.GetBid(id); err == nil && bid.IsValid() {
						cache.Shm.Shm.Total[bid-1] = 0
						cache.Shm.Shm.LastPostTime[bid-1] = 0
						cache.Shm.Shm.BusyStateB[bid-1] = 0
					}
				}
				cache.Shm.Shm.BBusyState = 0
				types.VerifSetClockOffset(0)
				must(copyFile(filepath.Join(env.repo, "ptt", "testcase", ".PASSWDS1"), filepath.Join(env.home, ".PASSWDS")))
				os.Remove(filepath.Join(env.home, ".post"))
				return ok()
			case 3: // shared memory around the post path: see c09SetEnv
				c09SetEnv(env, args)
				return ok(c09State(env)...)
			case 4: // 4 | mode v : the clock types.NowTS reads. 0 = the real clock, 1 / 3 = it reads v now, 2 = moved by v seconds
				if len(args) != 2 || len(args[1]) != 2 {
					panic("badcase:clock")
				}
				switch ai(args[1][0]) {
				case 0:
					types.VerifSetClockOffset(0)
				case 1:
					types.VerifSetClockOffset(ai(args[1][1]) - time.Now().Unix())
				case 3: // as 1, set in the first half of a second (a post with edge_us then starts just before v+1)
					if ns := time.Now().Nanosecond(); ns > 500_000_000 {
						time.Sleep(time.Duration(1_000_000_000-ns+2_000_000) * time.Nanosecond)
					}
					types.VerifSetClockOffset(ai(args[1][1]) - time.Now().Unix())
				case 2:
					types.VerifSetClockOffset(types.VerifClockOffset() + ai(args[1][1]))
				default:
					panic("badcase:clock")
				}
				return ok(oi(int64(types.NowTS())))
			case 5: // 5 | t.. : the 6-byte date field fhdrStamp would record for each time, asked in this order in this process
				if len(args) != 2 {
					panic("badcase:dates")
				}
				out := []string{}
				for _, t := range args[1] {
					var d ptttype.Date_t
					copy(d[:], []byte(types.Time4(ai(t)).Cdatemd()))
					out = append(out, ob(d[:])...)
				}
				return ok(out...)
			case 1: // 1 | ui bi seed [edge_us] | class | title | lines | ip
				u := c09Users[ai(args[1][0])]
				b := c09Boards[ai(args[1][1])]
				seed := ai(args[1][2])
				class := ab(args[2])
				title := ab(args[3])
				lines := c09Lines(args[4])
				ip := string(ab(args[5]))
				if len(class) == 0 {
					class = nil
				}
				cache.Shm.Shm.CooldownTime[u.uid-1] = 0 // the posting cool-down is another property's subject
				pre := c09State(env)
				// keep the whole call inside one wall-clock second whenever possible
				if len(args[1]) > 3 && ai(args[1][3]) > 0 {
					// edge case on request: start just before the second changes, so that the clock readings differ
					ns := time.Now().Nanosecond()
					wait := 1_000_000_000 - ns - int(ai(args[1][3]))*1000
					if wait < 0 {
						wait += 1_000_000_000
					}
					time.Sleep(time.Duration(wait) * time.Nanosecond)
				} else if ns := time.Now().Nanosecond(); ns > 900_000_000 {
					time.Sleep(time.Duration(1_000_000_000-ns+2_000_000) * time.Nanosecond)
				}
				rand.Seed(seed)
				bboardID := bbs.BBoardID(oi(int64(b.bid)) + "_" + b.name)
				t0 := int64(types.NowTS())
				var summary *bbs.ArticleSummary
				var err error
				crashed := false
				func() {
					defer func() {
						if r := recover(); r != nil {
							crashed = true
							if os.Getenv("VERIF_SHOW_PANIC") != "" {
								os.Stderr.WriteString("panic in CreateArticle\n")
							}
						}
					}()
					summary, err = bbs.CreateArticle(bbs.UUserID(u.name), bboardID, class, title, lines, ip)
				}()
				t1 := int64(types.NowTS())
				rand.Seed(seed)
				status := "0"
				if crashed {
					status = "1"
					summary = nil
				}
				out := []string{status, oi(t0), oi(t1)}
				for i := 0; i < 8; i++ {
					out = append(out, oi(int64(rand.Intn(0xfff+1))))
				}
				if err != nil {
					out = append(out, "1")
					summary = nil
				} else {
					out = append(out, "0")
				}
				out = append(out, pre...)
				out = append(out, c09Summary(summary)...)
				out = append(out, c09State(env)...)
				// read back by the returned id, as the author
				if summary != nil {
					content, mtime, _, ferr := bbs.GetArticle(bbs.UUserID(u.name), bboardID, summary.ArticleID, 0, false)
					if ferr != nil {
						out = append(out, "1", "0", "0")
					} else {
						out = append(out, "0", oi(int64(mtime)))
						out = append(out, c09Blob(content)...)
					}
					sums, _, _, newest, _, lerr := bbs.LoadGeneralArticles(bbs.UUserID(u.name), bboardID, "", 3, true)
					if lerr != nil || len(sums) == 0 {
						out = append(out, "1", "0", "0", "0", "0", "0", "0")
					} else {
						s := sums[0]
						out = append(out, "0", oi(int64(len(sums))), obool(newest))
						out = append(out, c09Blob([]byte(s.ArticleID))...)
						out = append(out, c09Blob([]byte(s.Filename))...)
						out = append(out, c09Blob(s.FullTitle)...)
						out = append(out, c09Blob([]byte(s.Owner))...)
					}
				} else {
					out = append(out, "1", "0", "0", "1", "0", "0", "0", "0", "0", "0")
				}
				return out
			}
			return []string{"9"}
		},
	})
}
