package main

// C02, sessions: results that alias shared state / reentrancy.
//
// op 5 — a SESSION of calls in one process, the way a caller that keeps what it was given sees them:
//
//	5|k|a|b|k|a|b|...       k = 1 crypt.Fcrypt(a = pw, b = salt)
//	                        k = 2 cmbbs.GenPasswd(a = pw)            (b: the salt read back, for the model only)
//	                        k = 3 cmbbs.CheckPasswd(a = stored, b = pw)
//	                        k = 4 cmbbs.CheckPasswd(h, b = pw) with h THE VERY SLICE call number a[0] (0-based,
//	                              an earlier call of kind 1 or 2) returned — not a copy of it
//
// Nothing a call returns is copied: the slices are kept as returned and read only after the last call. Result:
// status 0, then per call  n  v1..vn  m  — for k = 1, 2 the n bytes the kept slice holds AT THE END, for k = 3, 4
// n = 1 and the verdict; m = 1 if an argument slice of that call (the stored hash included) no longer holds the
// bytes it was given (checked right after the call and again at the end), else 0.
//
// op 6 — the same calls CONCURRENTLY:
//
//	6|rounds|k|a|b|k|a|b|...     k = 1, 2, 3 as above (one goroutine per call, each repeating its call `rounds`
//	                             times from a common start signal)
//
// Checks (k = 3) whose stored hashes are byte-equal share ONE slice, as two requests for one user record do.
// First every call is made once, alone: that is the sequential answer. Then the goroutines run; every answer is
// compared (copied on the spot) with the sequential one of its own call; the slice returned last is kept and read
// after all goroutines have finished. For k = 2 (fresh salt each time) an answer is right if re-hashing the password
// with the salt of the answer, after the goroutines have finished, gives the answer. Result: status 0, then per call
// n v1..vn (the sequential answer; n = 0 for k = 2)  x (answers that differed)  y (1 if the kept slice differs at
// the end).

import (
	"bytes"
	"sync"

	"github.com/Ptt-official-app/go-pttbbs/cmbbs"
	"github.com/Ptt-official-app/go-pttbbs/crypt"
)

type c02call struct {
	kind    int64
	a, b    []byte // the argument slices handed to the implementation (exact capacity)
	a0, b0  []byte // what they held when they were handed over
	ref     int    // kind 4: index of the call whose slice is the stored hash
	kept    []byte // kinds 1, 2: the slice as returned (never copied)
	verdict bool
	mut     bool
}

func c02parse(groups [][]string, refs bool) []*c02call {
	if len(groups)%3 != 0 {
		panic("badcase:groups")
	}
	var calls []*c02call
	for i := 0; i < len(groups); i += 3 {
		if len(groups[i]) != 1 {
			panic("badcase:kind")
		}
		c := &c02call{kind: ai(groups[i][0])}
		switch c.kind {
		case 1, 2, 3:
			c.a, c.b = ab(groups[i+1]), ab(groups[i+2])
		case 4:
			if !refs || len(groups[i+1]) != 1 {
				panic("badcase:ref")
			}
			j := ai(groups[i+1][0])
			if j < 0 || j > 1<<20 {
				panic("badcase:ref")
			}
			c.ref = int(j)
			c.b = ab(groups[i+2])
		default:
			panic("badcase:kind")
		}
		c.a0, c.b0 = append([]byte(nil), c.a...), append([]byte(nil), c.b...)
		calls = append(calls, c)
	}
	return calls
}

// one call of the session; nothing returned is copied
func (c *c02call) do(calls []*c02call, i int) {
	switch c.kind {
	case 1:
		h, err := crypt.Fcrypt(c.a, c.b)
		if err != nil {
			panic("fcrypt error")
		}
		c.kept = h
	case 2:
		h, err := cmbbs.GenPasswd(c.a)
		if err != nil {
			panic("genpasswd error")
		}
		c.kept = h[:]
	case 3:
		good, err := cmbbs.CheckPasswd(c.a, c.b)
		if err != nil {
			panic("checkpasswd error")
		}
		c.verdict = good
	case 4:
		if c.ref >= i || calls[c.ref].kept == nil {
			panic("badcase:ref")
		}
		stored := calls[c.ref].kept
		before := append([]byte(nil), stored...)
		good, err := cmbbs.CheckPasswd(stored, c.b)
		if err != nil {
			panic("checkpasswd error")
		}
		c.verdict = good
		if !bytes.Equal(before, stored) {
			c.mut = true
		}
	}
	if !bytes.Equal(c.a, c.a0) || !bytes.Equal(c.b, c.b0) {
		c.mut = true
	}
}

func c02session(groups [][]string) []string {
	calls := c02parse(groups, true)
	for i, c := range calls {
		c.do(calls, i)
	}
	out := []string{"0"}
	for _, c := range calls { // only now is anything read
		if !bytes.Equal(c.a, c.a0) || !bytes.Equal(c.b, c.b0) {
			c.mut = true
		}
		if c.kind == 1 || c.kind == 2 {
			out = append(out, oi(int64(len(c.kept))))
			out = append(out, ob(c.kept)...)
		} else {
			out = append(out, "1", obool(c.verdict))
		}
		out = append(out, obool(c.mut))
	}
	return out
}

func c02concurrent(rounds int, groups [][]string) []string {
	calls := c02parse(groups, false)
	n := len(calls)
	if rounds < 0 || rounds > 1000000 || n > 16 {
		panic("badcase:rounds")
	}
	// two checks against the same stored hash are two requests for ONE user record: they get the same slice
	for i := range calls {
		for j := i + 1; j < n; j++ {
			if calls[i].kind == 3 && calls[j].kind == 3 && len(calls[i].a) > 0 && bytes.Equal(calls[i].a, calls[j].a) {
				calls[j].a = calls[i].a
			}
		}
	}
	// the sequential answers
	seq := make([][]byte, n)
	for i, c := range calls {
		c.do(calls, i)
		switch c.kind {
		case 1:
			seq[i] = append([]byte(nil), c.kept...)
		case 3:
			seq[i] = []byte{0}
			if c.verdict {
				seq[i][0] = 1
			}
		}
	}
	differ := make([]int64, n)
	last := make([][]byte, n)  // the slice returned last, kept as returned
	gen := make([][][]byte, n) // kind 2: copies of every answer
	crashed := make([]bool, n)
	start := make(chan struct{})
	var wg sync.WaitGroup
	for i := range calls {
		wg.Add(1)
		go func(i int) {
			defer wg.Done()
			defer func() {
				if r := recover(); r != nil {
					crashed[i] = true
				}
			}()
			c := calls[i]
			<-start
			for r := 0; r < rounds; r++ {
				switch c.kind {
				case 1:
					h, err := crypt.Fcrypt(c.a, c.b)
					if err != nil || !bytes.Equal(h, seq[i]) {
						differ[i]++
					}
					last[i] = h
				case 2:
					h, err := cmbbs.GenPasswd(c.a)
					if err != nil {
						differ[i]++
						continue
					}
					gen[i] = append(gen[i], append([]byte(nil), h[:]...))
					last[i] = h[:]
				case 3:
					good, err := cmbbs.CheckPasswd(c.a, c.b)
					if err != nil || good != (seq[i][0] == 1) {
						differ[i]++
					}
				}
			}
		}(i)
	}
	close(start)
	wg.Wait()
	out := []string{"0"}
	for i, c := range calls {
		if crashed[i] {
			panic("crash in a goroutine")
		}
		stale := false
		switch c.kind {
		case 1:
			stale = last[i] != nil && !bytes.Equal(last[i], seq[i])
		case 2: // every answer must be the hash of ITS password under ITS OWN salt (re-hashed now, alone)
			empty := len(c.a) == 0 || c.a[0] == 0
			for _, h := range gen[i] {
				if empty {
					if !bytes.Equal(h, make([]byte, len(h))) {
						differ[i]++
					}
					continue
				}
				again, err := crypt.Fcrypt(append([]byte(nil), c.a0...), append([]byte(nil), h[:2]...))
				if err != nil || !bytes.Equal(append([]byte(nil), again...), h) {
					differ[i]++
				}
			}
			if len(gen[i]) > 0 && last[i] != nil {
				stale = !bytes.Equal(last[i], gen[i][len(gen[i])-1])
			}
		}
		if !bytes.Equal(c.a, c.a0) || !bytes.Equal(c.b, c.b0) {
			stale = true
		}
		out = append(out, oi(int64(len(seq[i]))))
		out = append(out, ob(seq[i])...)
		out = append(out, oi(differ[i]), obool(stale))
	}
	return out
}
