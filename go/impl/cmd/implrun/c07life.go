package main

// C07, op 11: a HISTORY of boards in one process. The moderator cache of the segment (Shm.BMCache) is kept per board
// slot; the other ops plant it. Here it is whatever the code's own operations leave: boards are created through
// ptt.NewBoard (free slot of .BRD or append), removed the way the administration tools do (record blanked, boards
// reloaded), the boards are reloaded, and in between every read entry point is asked for pool users.
//
//	11|step|step|...     one case line = one whole history (a replay is self-contained). Steps:
//	  1 n attr level m...   ptt.NewBoard as SYSOP: board "vfb<n>", attribute and level words, moderators = pool users m...
//	  2 n                   board n removed: its .BRD record blanked (cmsys.SubstituteRecord of an empty header), its directory
//	                        removed, cache.ReloadBCache
//	  3                     cache.ReloadBCache
//	  4 n u level over18    pool user u, planted with that level word / over-18 flag, asks every entry point about board n
//
// Result: status 0, then per step: create 0 ok / 3 name exists / 7 other error; remove 0 / 4 no such board; reload 0;
// query: found (0/1), then ptt IsBoardValidUser, LoadGeneralArticles, LoadBottomArticles, FindArticleStartIdx, ReadPost,
// ReadPostTemplate, bbs IsBoardValidUser, LoadGeneralArticles (1 not refused, 0 refused = ErrNotPermitted / not valid),
// ptt.LoadBoardsByBids of the board (0 absent, 1 with title, 2 without), ptt.LoadBoardSummary (1 with title, 2 without).
// Every history starts from the fixture's .BRD, freshly loaded, with the moderator caches behind the fixture's boards
// zeroed (a slot no board has been in yet).

import (
	"os"
	"strconv"

	"github.com/Ptt-official-app/go-pttbbs/bbs"
	"github.com/Ptt-official-app/go-pttbbs/cache"
	"github.com/Ptt-official-app/go-pttbbs/cmbbs"
	"github.com/Ptt-official-app/go-pttbbs/cmbbs/path"
	"github.com/Ptt-official-app/go-pttbbs/cmsys"
	"github.com/Ptt-official-app/go-pttbbs/ptt"
	"github.com/Ptt-official-app/go-pttbbs/ptttype"
)

const c07LifeBoards = 10 // names vfb0 .. vfb9

// no id of the pool is part of another one (is_uBM looks for the id as a substring of the BM field)
var c07LifePoolIDs = []string{"CodingMan", "pichu", "Kahou2", "chhsiao123"}

type c07LifeState struct {
	ready    bool
	brd      []byte // the fixture's .BRD
	nFixture int
	adminUID ptttype.UID
	admin    ptttype.UserecRaw
	uids     []ptttype.UID
	base     []ptttype.UserecRaw
}

var c07Life = &c07LifeState{}

func c07LifeName(n int64) *ptttype.BoardID_t {
	id := toBoardID("vfb" + strconv.FormatInt(n, 10))
	return &id
}

func c07LifeDir(w *world, n int64) string {
	return path.SetBPath(c07LifeName(n))
}

func (ls *c07LifeState) init(w *world) {
	if ls.ready {
		return
	}
	b, err := os.ReadFile(ptttype.FN_BOARD)
	must(err)
	ls.brd = b
	ls.nFixture = len(b) / int(ptttype.BOARD_HEADER_RAW_SZ)
	id := toUserID("SYSOP")
	uid, u, err := cmbbs.PasswdLoadUser(&id)
	must(err)
	ls.adminUID, ls.admin = uid, *u
	ls.admin.UserLevel |= ptttype.PERM_SYSOP | ptttype.PERM_BOARD | ptttype.PERM_BASIC | ptttype.PERM_LOGINOK
	for _, s := range c07LifePoolIDs {
		id := toUserID(s)
		uid, u, err := cmbbs.PasswdLoadUser(&id)
		must(err)
		ls.uids = append(ls.uids, uid)
		ls.base = append(ls.base, *u)
	}
	ls.ready = true
}

// reset: the state every history starts from.
func (ls *c07LifeState) reset(w *world) {
	must(os.WriteFile(ptttype.FN_BOARD, ls.brd, 0o644))
	for n := int64(0); n < c07LifeBoards; n++ {
		must(os.RemoveAll(c07LifeDir(w, n)))
	}
	cache.ReloadBCache()
	for k := ls.nFixture; k < ls.nFixture+2*c07LifeBoards && k < ptttype.MAX_BOARD; k++ {
		cache.Shm.Shm.BMCache[k] = [ptttype.MAX_BMs]ptttype.UID{}
		cache.Shm.Shm.BCache[k] = ptttype.BoardHeaderRaw{}
	}
	must(cmbbs.PasswdUpdate(ls.adminUID, &ls.admin))
	for k, uid := range ls.uids {
		u := ls.base[k]
		must(cmbbs.PasswdUpdate(uid, &u))
	}
}

func c07NotRefused(err error) string { return obool(err != ptt.ErrNotPermitted) }

func c07RunLife(w *world, steps [][]string) []string {
	ls := c07Life
	ls.init(w)
	for _, st := range steps { // the whole line is checked before anything is touched
		if len(st) == 0 {
			return []string{"9"}
		}
		nb := func(s string) bool { n := ai(s); return n >= 0 && n < c07LifeBoards }
		good := false
		switch ai(st[0]) {
		case 1:
			good = len(st) >= 4 && nb(st[1])
			for j := 4; j < len(st); j++ {
				good = good && ai(st[j]) >= 0 && int(ai(st[j])) < len(ls.uids)
			}
		case 2:
			good = len(st) == 2 && nb(st[1])
		case 3:
			good = len(st) == 1
		case 4:
			good = len(st) == 5 && nb(st[1]) && ai(st[2]) >= 0 && int(ai(st[2])) < len(ls.uids)
		}
		if !good {
			return []string{"9"}
		}
	}
	ls.reset(w)
	defer ls.reset(w)
	out := []string{"0"}
	for _, st := range steps {
		switch ai(st[0]) {
		case 1:
			bms := &ptttype.BM_t{}
			s := ""
			for k, m := range st[4:] {
				if k > 0 {
					s += "/"
				}
				s += c07LifePoolIDs[ai(m)]
			}
			copy(bms[:], s)
			admin := ls.admin
			_, err := ptt.NewBoard(&admin, ls.adminUID, 2, c07LifeName(ai(st[1])), []byte("CPBL"), []byte("life"), bms,
				ptttype.BrdAttr(uint32(au(st[2]))), ptttype.PERM(uint32(au(st[3]))), 0, false)
			switch err {
			case nil:
				out = append(out, "0")
			case ptttype.ErrBoardIDAlreadyExists:
				out = append(out, "3")
			default:
				out = append(out, "7")
			}
		case 2:
			bid, err := cache.GetBid(c07LifeName(ai(st[1])))
			if err != nil || !bid.IsValid() {
				out = append(out, "4")
				break
			}
			must(cmsys.SubstituteRecord(ptttype.FN_BOARD, &ptttype.BoardHeaderRaw{}, ptttype.BOARD_HEADER_RAW_SZ, int32(bid.ToBidInStore())))
			must(os.RemoveAll(c07LifeDir(w, ai(st[1]))))
			cache.ReloadBCache()
			out = append(out, "0")
		case 3:
			cache.ReloadBCache()
			out = append(out, "0")
		case 4:
			out = append(out, c07LifeQuery(ls, ai(st[1]), int(ai(st[2])), uint32(au(st[3])), ai(st[4]) != 0)...)
		}
	}
	return out
}

func c07LifeQuery(ls *c07LifeState, n int64, k int, level uint32, over18 bool) []string {
	name := c07LifeName(n)
	bid, err := cache.GetBid(name)
	if err != nil || !bid.IsValid() {
		return []string{"0", "-1", "-1", "-1", "-1", "-1", "-1", "-1", "-1", "-1", "-1"}
	}
	uid := ls.uids[k]
	planted := ls.base[k]
	planted.UserLevel = ptttype.PERM(level)
	planted.Over18 = over18
	header := cache.Shm.Shm.BCache[bid-1]
	// the caller's record and the header as they are before the call (a guard evaluation may write level bits into
	// .PASSWDS, building a listing entry may write the restricted mask into the header of a hidden board)
	user := func() *ptttype.UserecRaw {
		cache.Shm.Shm.BCache[bid-1] = header
		must(cmbbs.PasswdUpdate(uid, &planted))
		u := planted
		return &u
	}
	fn := &ptttype.Filename_t{}
	copy(fn[:], c07Article)
	out := []string{"1"}
	valid, err := ptt.IsBoardValidUser(user(), uid, name, bid)
	if err != nil {
		out = append(out, "7")
	} else {
		out = append(out, obool(valid))
	}
	_, _, _, _, err = ptt.LoadGeneralArticles(user(), uid, name, bid, 0, 10, true)
	out = append(out, c07NotRefused(err))
	_, err = ptt.LoadBottomArticles(user(), uid, name, bid)
	out = append(out, c07NotRefused(err))
	_, err = ptt.FindArticleStartIdx(user(), uid, name, bid, c07ArtTime, fn, true)
	out = append(out, c07NotRefused(err))
	_, _, _, err = ptt.ReadPost(user(), uid, name, bid, fn, 0, false)
	out = append(out, c07NotRefused(err))
	_, _, _, err = ptt.ReadPostTemplate(user(), uid, name, bid, 1, 0, false)
	out = append(out, c07NotRefused(err))

	uu := bbs.UUserID(c07LifePoolIDs[k])
	bb := bbs.ToBBoardID(bid, name)
	user()
	valid, err = bbs.IsBoardValidUser(uu, bb)
	if err != nil {
		out = append(out, "7")
	} else {
		out = append(out, obool(valid))
	}
	user()
	_, _, _, _, _, err = bbs.LoadGeneralArticles(uu, bb, "", 10, true)
	out = append(out, c07NotRefused(err))

	l, err := ptt.LoadBoardsByBids(user(), uid, []ptttype.Bid{bid})
	out = append(out, listingCode(bid, l, err)[0])
	s, err := ptt.LoadBoardSummary(user(), uid, bid)
	if err != nil || s == nil {
		out = append(out, "7")
	} else {
		out = append(out, listingCode(bid, []*ptttype.BoardSummaryRaw{s}, nil)[0])
	}
	user()
	return out
}
