package main

// C01 driver, histories: several record writes in ONE process, some of which the operating system
// refuses (ENOSPC on /dev/full, EFBIG under RLIMIT_FSIZE 0, EBADF on a read-only or closed handle, a
// writer that accepts only k bytes). What is written AFTER a refused write must be what a first write
// would have been: the serializer keeps nothing from one call to the next.
//
// op 10  [cfg pin] .PASSWDS [exists] .PASSWD2 step...     step = kind dev uid payload...
//        kind 1 PasswdUpdatePasswd(14 bytes) 2 PasswdUpdateEmail(50 bytes) 3 SetUMoney(v)
//             4 PasswdUpdate(whole record, leaves) 5 PasswdUpdateUserLevel2(perm isSet now) [dev, uid unused; now: see below]
//        dev  0 the write is accepted; 1 .PASSWDS is on a full device (/dev/full); 2 RLIMIT_FSIZE = 0
//        -> 0 (st code)* len(.PASSWDS) bytes.. exists len(.PASSWD2) bytes..
// op 11  [cfg pin] (name leaves [sink])...               types.BinaryWrite of each value to its sink
//        sink -1 a buffer; k >= 0 a writer that takes k bytes and then fails; -2 /dev/full; -3 a read-only
//             handle of a regular file; -4 a closed handle
//        -> 0 (st code n bytes..)*                        bytes = what reached the writer
// op 12  [nrefused] (PostLog leaves)...                   nrefused refused BinaryWrite(PostLog) to the full device, then
//        cmsys.AppendRecord(.post) of each record -> 0 idx.. size count bytes..

import (
	"bytes"
	"encoding/binary"
	"errors"
	"os"
	"os/signal"
	"path/filepath"
	"reflect"
	"runtime"
	"runtime/debug"
	"syscall"
	"time"

	"github.com/Ptt-official-app/go-pttbbs/cache"
	"github.com/Ptt-official-app/go-pttbbs/cmbbs"
	"github.com/Ptt-official-app/go-pttbbs/cmbbs/path"
	"github.com/Ptt-official-app/go-pttbbs/cmsys"
	"github.com/Ptt-official-app/go-pttbbs/ptt"
	"github.com/Ptt-official-app/go-pttbbs/ptttype"
	"github.com/Ptt-official-app/go-pttbbs/types"
)

var errC01Short = errors.New("c01: writer is full")

func c01Refused(err error) bool {
	return errors.Is(err, syscall.ENOSPC) || errors.Is(err, syscall.EFBIG) || errors.Is(err, syscall.EBADF) ||
		errors.Is(err, os.ErrClosed) || errors.Is(err, errC01Short)
}

// a writer that takes k bytes in total and refuses the rest
type c01Limited struct {
	got  []byte
	room int
}

func (w *c01Limited) Write(p []byte) (int, error) {
	if len(p) <= w.room {
		w.got = append(w.got, p...)
		w.room -= len(p)
		return len(p), nil
	}
	n := w.room
	w.got = append(w.got, p[:n]...)
	w.room = 0
	return n, errC01Short
}

// A device without space: a PRIVATE character device 1:7 (what /dev/full is) in a scratch directory, so that
// nothing another process does to the shared /dev/full can change a verdict; /dev/full itself only when it
// still is that device. Probed: a one-byte write must be refused with ENOSPC. "" = none available (then the
// RLIMIT_FSIZE refusal is used in its place).
var (
	c01FullPath  string
	c01FullDir   string
	c01FullReady bool
)

func c01ProbeFull(p string) bool {
	st, err := os.Stat(p)
	if err != nil || st.Mode()&os.ModeCharDevice == 0 {
		return false
	}
	f, err := os.OpenFile(p, os.O_WRONLY, 0)
	if err != nil {
		return false
	}
	defer f.Close()
	_, err = f.Write([]byte{0})
	return errors.Is(err, syscall.ENOSPC)
}

func c01Full() string {
	if c01FullReady {
		return c01FullPath
	}
	c01FullReady = true
	if dir, err := os.MkdirTemp("", "verifc01dev"); err == nil {
		c01FullDir = dir
		p := filepath.Join(dir, "full")
		if syscall.Mknod(p, syscall.S_IFCHR|0o600, 1<<8|7) == nil && c01ProbeFull(p) {
			c01FullPath = p
			return p
		}
	}
	if c01ProbeFull("/dev/full") {
		c01FullPath = "/dev/full"
	}
	return c01FullPath
}

func c01FullCleanup() {
	if c01FullDir != "" {
		os.RemoveAll(c01FullDir)
	}
}

var c01XfszIgnored bool

// run f while every write to a regular file is refused with EFBIG
func c01WithNoFileSpace(f func()) {
	if !c01XfszIgnored {
		signal.Ignore(syscall.SIGXFSZ)
		c01XfszIgnored = true
	}
	var old syscall.Rlimit
	must(syscall.Getrlimit(syscall.RLIMIT_FSIZE, &old))
	must(syscall.Setrlimit(syscall.RLIMIT_FSIZE, &syscall.Rlimit{Cur: 0, Max: old.Max}))
	defer func() { must(syscall.Setrlimit(syscall.RLIMIT_FSIZE, &old)) }()
	f()
}

// one P and no collection while a history runs, so that whatever the code keeps between two calls
// (a package variable, a sync.Pool) is met again by the next call; verdicts do not depend on it
func c01Pin(pin bool) func() {
	if !pin {
		return func() {}
	}
	procs := runtime.GOMAXPROCS(1)
	gc := debug.SetGCPercent(-1)
	return func() {
		debug.SetGCPercent(gc)
		runtime.GOMAXPROCS(procs)
	}
}

func c01History(getEnv func() *bbsEnv, args [][]string) []string {
	switch ai(args[0][0]) {
	case 10:
		getEnv()
		defer c01Pin(ai(args[1][1]) != 0)()
		must(os.WriteFile(ptttype.FN_PASSWD, ab(args[2]), 0o600))
		userID := &ptttype.UserID_t{'S', 'Y', 'S', 'O', 'P'}
		fn2, err := path.SetHomeFile(userID, ptttype.FN_PASSWD2)
		must(err)
		must(os.MkdirAll(filepath.Dir(fn2), 0o755))
		os.Remove(fn2)
		if ai(args[3][0]) != 0 {
			must(os.WriteFile(fn2, ab(args[4]), 0o600))
		}
		out := []string{"0"}
		t0 := time.Now().Unix()
		stamped, now := false, int64(0)
		for _, st := range args[5:] {
			kind, dev, uid := ai(st[0]), ai(st[1]), ptttype.UID(ai(st[2]))
			pay := st[3:]
			var call func() error
			switch kind {
			case 1:
				h := &ptttype.Passwd_t{}
				if len(c01Fill(reflect.ValueOf(h).Elem(), pay)) != 0 {
					panic("badcase:step")
				}
				call = func() error { return cmbbs.PasswdUpdatePasswd(uid, h) }
			case 2:
				e := &ptttype.Email_t{}
				if len(c01Fill(reflect.ValueOf(e).Elem(), pay)) != 0 {
					panic("badcase:step")
				}
				call = func() error { return cmbbs.PasswdUpdateEmail(uid, e) }
			case 3:
				v := int32(ai(pay[0]))
				call = func() error { _, err := cache.SetUMoney(uid, v); return err }
			case 4:
				u := &ptttype.UserecRaw{}
				if len(c01Fill(reflect.ValueOf(u).Elem(), pay)) != 0 {
					panic("badcase:step")
				}
				call = func() error { return cmbbs.PasswdUpdate(uid, u) }
			case 5:
				perm, isSet := ptttype.PERM2(au(pay[0])), ai(pay[1]) != 0
				dev = 0
				call = func() error { return cmbbs.PasswdUpdateUserLevel2(userID, perm, isSet) }
			default:
				panic("badcase:kind")
			}
			var err error
			switch dev {
			case 0:
				err = call()
			case 1:
				if full := c01Full(); full != "" {
					orig := ptttype.FN_PASSWD
					ptttype.FN_PASSWD = full
					func() {
						defer func() { ptttype.FN_PASSWD = orig }()
						err = call()
					}()
				} else {
					c01WithNoFileSpace(func() { err = call() })
				}
			case 2:
				c01WithNoFileSpace(func() { err = call() })
			default:
				panic("badcase:dev")
			}
			if err != nil {
				out = append(out, c01ErrCode(err)...)
			} else {
				out = append(out, "0", "0")
				if kind == 5 {
					stamped, now = true, ai(pay[2])
				}
			}
		}
		t1 := time.Now().Unix()
		b, err := os.ReadFile(ptttype.FN_PASSWD)
		must(err)
		out = append(out, oi(int64(len(b))))
		out = append(out, ob(b)...)
		b2, err := os.ReadFile(fn2)
		if err != nil {
			return append(out, "0", "0")
		}
		// the clock is an input: an UpdateTS that lies between the start and the end of this history is reported
		// as the `now` the case line gave to the last successful level-2 step; any other value is reported as it is
		if stamped && len(b2) >= 12 {
			ts := int64(int32(binary.LittleEndian.Uint32(b2[8:12])))
			if t0 <= ts && ts <= t1 {
				binary.LittleEndian.PutUint32(b2[8:12], uint32(int32(now)))
			}
		}
		out = append(out, "1", oi(int64(len(b2))))
		return append(out, ob(b2)...)
	case 11:
		defer c01Pin(ai(args[1][1]) != 0)()
		dir, err := os.MkdirTemp("", "verifc01")
		must(err)
		defer os.RemoveAll(dir)
		out := []string{"0"}
		for i := 2; i+2 < len(args); i += 3 {
			t := c01Types[string(ab(args[i]))]
			if t == nil {
				return errs(0)
			}
			p := reflect.New(t)
			if len(c01Fill(p.Elem(), args[i+1])) != 0 {
				return errs(1)
			}
			k := ai(args[i+2][0])
			var got []byte
			switch {
			case k == -1:
				buf := &bytes.Buffer{}
				err = types.BinaryWrite(buf, binary.LittleEndian, p.Interface())
				got = buf.Bytes()
			case k >= 0:
				w := &c01Limited{room: int(k)}
				err = types.BinaryWrite(w, binary.LittleEndian, p.Interface())
				got = w.got
			case k == -2 && c01Full() != "":
				f, e := os.OpenFile(c01Full(), os.O_WRONLY, 0)
				must(e)
				err = types.BinaryWrite(f, binary.LittleEndian, p.Interface())
				f.Close()
			case k == -2: // no such device here: a regular file that may not grow
				fn := filepath.Join(dir, "nospace")
				f, e := os.OpenFile(fn, os.O_WRONLY|os.O_CREATE, 0o600)
				must(e)
				c01WithNoFileSpace(func() { err = types.BinaryWrite(f, binary.LittleEndian, p.Interface()) })
				f.Close()
				got, e = os.ReadFile(fn)
				must(e)
			case k == -3, k == -4:
				fn := filepath.Join(dir, "ro")
				must(os.WriteFile(fn, []byte{}, 0o600))
				f, e := os.Open(fn)
				must(e)
				if k == -4 {
					f.Close()
				}
				err = types.BinaryWrite(f, binary.LittleEndian, p.Interface())
				f.Close()
				got, e = os.ReadFile(fn)
				must(e)
			default:
				panic("badcase:sink")
			}
			if err != nil {
				out = append(out, c01ErrCode(err)...)
			} else {
				out = append(out, "0", "0")
			}
			out = append(out, oi(int64(len(got))))
			out = append(out, ob(got)...)
		}
		return out
	case 12:
		dir, err := os.MkdirTemp("", "verifpost")
		must(err)
		defer os.RemoveAll(dir)
		defer c01Pin(true)()
		fn := filepath.Join(dir, ".post")
		out := []string{"0"}
		mk := func(leaves []string) *ptt.PostLog {
			pl := &ptt.PostLog{}
			if len(c01Fill(reflect.ValueOf(pl).Elem(), leaves)) != 0 {
				panic("badcase:postlog")
			}
			return pl
		}
		for k := int64(0); k < ai(args[1][0]) && len(args) > 2; k++ {
			var f *os.File
			var e error
			if c01Full() != "" {
				f, e = os.OpenFile(c01Full(), os.O_WRONLY, 0)
			} else {
				f, e = os.Open(os.DevNull) // read-only handle: EBADF
			}
			must(e)
			e = types.BinaryWrite(f, binary.LittleEndian, mk(args[2]))
			f.Close()
			if e == nil {
				return errs(98) // the record was taken
			}
		}
		for _, g := range args[2:] {
			idx, err := cmsys.AppendRecord(fn, mk(g), ptt.POSTLOG_SZ)
			if err != nil {
				return errs(99)
			}
			out = append(out, oi(int64(idx)))
		}
		b, err := os.ReadFile(fn)
		must(err)
		out = append(out, oi(int64(len(b))), oi(int64(cmsys.GetNumRecords(fn, ptt.POSTLOG_SZ))))
		return append(out, ob(b)...)
	}
	return []string{"9"}
}
