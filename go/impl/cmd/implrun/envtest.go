package main

import (
	"github.com/Ptt-official-app/go-pttbbs/cache"
	"github.com/Ptt-official-app/go-pttbbs/ptttype"
)

// ENVTEST: smoke test of the shared scratch environment (op 1: number of users, bid of a board name)
func init() {
	var env *bbsEnv
	register("ENVTEST", &propDriver{
		setup:    func() { env = newBBSEnv("ptt", true) },
		teardown: func() { env.close() },
		run: func(args [][]string) []string {
			switch ai(args[0][0]) {
			case 1:
				uid, _ := cache.SearchUserRaw(&ptttype.UserID_t{'S', 'Y', 'S', 'O', 'P'}, nil)
				bid, _ := cache.GetBid(&ptttype.BoardID_t{'W', 'h', 'o', 'A', 'm', 'I'})
				return ok(oi(int64(uid)), oi(int64(bid)), oi(int64(cache.Shm.GetBNumber())))
			}
			return []string{"9"}
		},
	})
}
