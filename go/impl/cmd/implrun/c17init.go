package main

import (
	"os"
	"path/filepath"
	"strconv"

	"github.com/Ptt-official-app/go-pttbbs/ptttype"
	"github.com/Ptt-official-app/go-pttbbs/types"
	"github.com/spf13/viper"
)

// C17, initialisation paths. The two tables are package state of package types, so a scenario is ONE case
// line run in a fresh process (VERIF_C17_FRESH=1: setup has not loaded anything):
//
//	10 | pb1 pu1 pb2 pu2 ... | dir bytes... | dir bytes... | ...
//	11 | pb1 pu1 pb2 pu2 ... | kind bytes... | kind bytes... | ...
//
// The first group after the op is the history of start-ups: for every attempt the configured paths of the
// Big5->UTF-8 table (pb) and the UTF-8->Big5 table (pu): 0 the real file, 1 a file that does not exist,
// 2 a directory (open succeeds, the read fails), 3 the empty string. An attempt is what the server does:
// the paths come from the configuration (viper keys go-pttbbs:types.big5_to_utf8 / utf8_to_big5) and
// types.InitConfig() (config() + postConfig() -> initBig5()) is called.
//
// op 10 result: 0 n st1..stn (st: 0 = InitConfig returned nil, 1 = an error), then for every conversion group
// "0 len bytes..." (or "1" when it panicked): dir 1 Big5ToUtf8, 2 Utf8ToBig5, 3 Utf8ToBig5(Big5ToUtf8(x)),
// 4 Big5ToUtf8(Utf8ToBig5(x)).
//
// op 11 result: 0 n st1..stn, then for every step "len(BBSNAME) bytes len(BBSNAME_BIG5) bytes
// len(Utf8ToBig5(BBSNAME)) bytes" read right after the step. kind 0: ptttype.InitConfig() with no site name
// configured; kind 1: ptttype.InitConfig() with go-pttbbs:ptttype.bbsname = the bytes (may be empty).
var c17Used = false

func c17Path(sel int64, good string) string {
	switch sel {
	case 0:
		return good
	case 1:
		return good + ".missing"
	case 2:
		return filepath.Dir(good)
	case 3:
		return ""
	}
	panic("badcase:path")
}

func c17History(h []string) []string {
	if os.Getenv("VERIF_C17_FRESH") == "" || c17Used {
		panic("badcase:not-fresh") // the tables of this process already have a history
	}
	c17Used = true
	if len(h)%2 != 0 {
		panic("badcase:history")
	}
	for _, t := range h {
		if v := ai(t); v < 0 || v > 3 {
			panic("badcase:path")
		}
	}
	goodB2U := "./types/uao250-b2u.big5.txt" // setup did chdir to the repository root
	goodU2B := "./types/uao250-u2b.big5.txt"
	out := []string{strconv.Itoa(len(h) / 2)}
	for i := 0; i+1 < len(h); i += 2 {
		viper.Set("go-pttbbs:types.time_location", "UTC")
		viper.Set("go-pttbbs:types.big5_to_utf8", c17Path(ai(h[i]), goodB2U))
		viper.Set("go-pttbbs:types.utf8_to_big5", c17Path(ai(h[i+1]), goodU2B))
		if err := types.InitConfig(); err != nil {
			out = append(out, "1")
		} else {
			out = append(out, "0")
		}
	}
	return out
}

func c17Conv(g []string) (res []string) {
	defer func() {
		if r := recover(); r != nil {
			if s, ok := r.(string); ok && len(s) >= 8 && s[:8] == "badcase:" {
				panic(r)
			}
			res = []string{"1"}
		}
	}()
	if len(g) == 0 {
		panic("badcase:conv")
	}
	in := ab(g[1:])
	var o []byte
	switch ai(g[0]) {
	case 1:
		o = []byte(types.Big5ToUtf8(in))
	case 2:
		o = types.Utf8ToBig5(string(in))
	case 3:
		o = types.Utf8ToBig5(types.Big5ToUtf8(in))
	case 4:
		o = []byte(types.Big5ToUtf8(types.Utf8ToBig5(string(in))))
	default:
		panic("badcase:dir")
	}
	return append([]string{"0", strconv.Itoa(len(o))}, ob(o)...)
}

func c17InitScenario(args [][]string) []string {
	if len(args) < 2 {
		return []string{"9"}
	}
	out := ok(c17History(args[1])...)
	for _, g := range args[2:] {
		out = append(out, c17Conv(g)...)
	}
	return out
}

func c17BBSNameScenario(args [][]string) []string {
	if len(args) < 2 {
		return []string{"9"}
	}
	out := ok(c17History(args[1])...)
	lb := func(b []byte) []string { return append([]string{strconv.Itoa(len(b))}, ob(b)...) }
	for _, g := range args[2:] {
		if len(g) == 0 {
			panic("badcase:step")
		}
		// what the configuration file gives for package ptttype: only the site name, or nothing
		// (viper has no "unset": start from an empty configuration; package types is not re-initialised here)
		viper.Reset()
		switch ai(g[0]) {
		case 0:
		case 1:
			viper.Set("go-pttbbs:ptttype.bbsname", string(ab(g[1:])))
		default:
			panic("badcase:kind")
		}
		if err := ptttype.InitConfig(); err != nil {
			return errs(1)
		}
		out = append(out, lb([]byte(ptttype.BBSNAME))...)
		out = append(out, lb(ptttype.BBSNAME_BIG5)...)
		out = append(out, lb(types.Utf8ToBig5(ptttype.BBSNAME))...)
	}
	return out
}
