package main

// C03 on tables of any size (case op 2). The initial .PASSWDS is given sparsely: n records, all free except the
// listed ones. The file is as long as its records (fillUHash reads to the end of the file whatever MAX_USERS is), so
// the production build (-tags docker, MAX_USERS = 2 000 000) can be driven with files of a few thousand records and
// more than PRE_ALLOCATED_USERS free records in front of live accounts. The observation lists the non-empty records
// instead of every slot, and which records of the file the user-id index (HashHead/NextInHash in shared memory) does
// not reach.

import (
	"bytes"
	"encoding/binary"
	"os"
	"path/filepath"
	"time"
	"unsafe"

	"github.com/Ptt-official-app/go-pttbbs/cache"
	"github.com/Ptt-official-app/go-pttbbs/cmbbs"
	"github.com/Ptt-official-app/go-pttbbs/ptttype"
	"github.com/Ptt-official-app/go-pttbbs/types"
)

func c03Record(id, pw, em, fl string, now types.Time4) []byte {
	u := &ptttype.UserecRaw{}
	u.Version = ptttype.PASSWD_VERSION
	copy(u.UserID[:], id)
	if pw != "" {
		h, err := cmbbs.GenPasswd([]byte(pw))
		must(err)
		copy(u.PasswdHash[:], h[:])
	}
	copy(u.Email[:], em)
	u.UserLevel = ptttype.PERM_DEFAULT
	u.FirstLogin = now - 10*365*86400
	u.LastLogin = now
	if len(fl) > 0 && fl[0] != 0 {
		u.LastLogin = now - 5*365*86400
	}
	if len(fl) > 1 && fl[1] != 0 {
		u.UserLevel |= ptttype.PERM_XEMPT
	}
	u.NumLoginDays = 1
	u.Pager = ptttype.PAGER_ON
	w := &bytes.Buffer{}
	must(binary.Write(w, binary.LittleEndian, u))
	if w.Len() != int(ptttype.USEREC_RAW_SZ) {
		panic("userec size")
	}
	return w.Bytes()
}

// c03ResetBig writes a .PASSWDS of n records (free except init[4i..4i+3] at record pos[i]) and rebuilds shared memory
// from it, as a server start does.
func c03ResetBig(e *bbsEnv, n int, pos []int, init []string, throttle bool) {
	e.loadFixture("ptt")
	sz := int(ptttype.USEREC_RAW_SZ)
	buf := make([]byte, sz*n)
	now := types.NowTS()
	for i, p := range pos {
		if init[4*i] == "" {
			continue
		}
		copy(buf[p*sz:(p+1)*sz], c03Record(init[4*i], init[4*i+1], init[4*i+2], init[4*i+3], now))
	}
	must(os.WriteFile(filepath.Join(e.home, ".PASSWDS"), buf, 0o600))
	fresh := filepath.Join(e.home, ".fresh")
	os.Remove(fresh)
	if throttle {
		must(os.WriteFile(fresh, []byte(time.Now().String()), 0o600))
	}
	os.MkdirAll(filepath.Join(e.home, "tmp"), 0o755)
	e.reload(true)
}

// c03ObserveBig: count of non-empty records, then per such record its number (from 1), id, mask of verifying pool
// passwords, e-mail; the index answers for the id pool; -5 and the records among the first n that no hash chain
// reaches; then, only when there is something to report (the model never does): -6 and chain entries at or beyond
// record n, -7 and records whose id in shared memory differs from the id in the file.
func c03ObserveBig(e *bbsEnv, n int, pwpool, idpool []string) []string {
	fb, err := os.ReadFile(filepath.Join(e.home, ".PASSWDS"))
	must(err)
	sz := int(ptttype.USEREC_RAW_SZ)
	offID := int(unsafe.Offsetof(ptttype.USEREC_RAW.UserID))
	offPw := int(unsafe.Offsetof(ptttype.USEREC_RAW.PasswdHash))
	offEm := int(unsafe.Offsetof(ptttype.USEREC_RAW.Email))
	top := len(fb) / sz
	if top < n {
		top = n
	}
	if top > ptttype.MAX_USERS {
		top = ptttype.MAX_USERS
	}
	live := []string{}
	nlive := 0
	disagree := []string{}
	zero := make([]byte, sz)
	for k := 0; k < top; k++ {
		rec := zero
		if (k+1)*sz <= len(fb) {
			rec = fb[k*sz : (k+1)*sz]
		}
		id := c15Cstr(rec[offID : offID+ptttype.IDLEN+1])
		shmID := cache.Shm.Shm.Userid[k]
		if !bytes.Equal(c15Cstr(shmID[:]), id) {
			disagree = append(disagree, oi(int64(k+1)))
		}
		if len(id) == 0 {
			continue
		}
		nlive++
		hash := rec[offPw : offPw+ptttype.PASSLEN]
		mask := int64(0)
		for i, p := range pwpool {
			okk, err := cmbbs.CheckPasswd(hash, []byte(p))
			if err == nil && okk {
				mask |= 1 << uint(i)
			}
		}
		em := c15Cstr(rec[offEm : offEm+ptttype.EMAILSZ])
		live = append(live, oi(int64(k+1)), oi(int64(len(id))))
		live = append(live, ob(id)...)
		live = append(live, oi(mask), oi(int64(len(em))))
		live = append(live, ob(em)...)
	}
	out := append([]string{oi(int64(nlive))}, live...)
	for _, nm := range idpool {
		uid := &ptttype.UserID_t{}
		copy(uid[:], nm)
		u, _ := cache.SearchUserRaw(uid, nil)
		out = append(out, oi(int64(u)))
	}
	// which records the index reaches: walk every chain (bounded: a chain without a cycle has at most top+1 entries
	// below top; anything else is reported)
	reached := make([]bool, top)
	extra := []string{}
	for h := range cache.Shm.Shm.HashHead {
		val := cache.Shm.Shm.HashHead[h]
		for steps := 0; val >= 0 && int(val) < ptttype.MAX_USERS && steps <= top+8; steps++ {
			if int(val) < top {
				reached[val] = true
			} else if len(extra) < 16 {
				extra = append(extra, oi(int64(val)+1))
			}
			val = cache.Shm.Shm.NextInHash[val]
		}
	}
	out = append(out, "-5")
	for k := 0; k < n && k < top; k++ {
		if !reached[k] {
			out = append(out, oi(int64(k+1)))
		}
	}
	if len(extra) > 0 {
		out = append(out, "-6")
		out = append(out, extra...)
	}
	if len(disagree) > 0 {
		out = append(out, "-7")
		out = append(out, disagree...)
	}
	return out
}

// case: 2|layer throttle|password pool|id pool|reserved ids (ignored)|n pos...|initial accounts (4 strings each)|op|op|...
// op 9 (no arguments) = cache.LoadUHash() on the running server.
func c03BigHistory(args [][]string) []string {
	if len(args) < 7 || len(args[1]) != 2 || len(args[5]) < 1 {
		return []string{"9"}
	}
	layer := ai(args[1][0])
	pwpool := c03Strs(args[2])
	idpool := c03Strs(args[3])
	n := int(ai(args[5][0]))
	pos := []int{}
	for _, t := range args[5][1:] {
		p := int(ai(t))
		if p < 0 || p >= n {
			return []string{"9"}
		}
		pos = append(pos, p)
	}
	init := c03Strs(args[6])
	if n < 1 || n > ptttype.MAX_USERS || len(init) != 4*len(pos) {
		return []string{"9"}
	}
	c03ResetBig(c03Env, n, pos, init, ai(args[1][1]) != 0)
	out := []string{"0"}
	out = append(out, c03ObserveBig(c03Env, n, pwpool, idpool)...)
	for _, g := range args[7:] {
		if len(g) == 0 {
			return []string{"9"}
		}
		code := ai(g[0])
		a := c03Strs(g[1:])
		want := map[int64]int{1: 3, 2: 2, 3: 2, 4: 3, 5: 2, 6: 1, 7: 1, 8: 0, 9: 0}
		if nn, okk := want[code]; !okk || nn != len(a) {
			return []string{"9"}
		}
		out = append(out, "-1")
		switch code {
		case 8:
			os.Remove(filepath.Join(c03Env.home, ".fresh")) // an hour passes
			out = append(out, c03Ok(nil)...)
		case 9:
			if err := cache.LoadUHash(); err != nil {
				out = append(out, errs(c03ErrCode(err))...)
			} else {
				out = append(out, c03Ok(nil)...)
			}
		default:
			out = append(out, c03RunOne(layer, code, a)...)
		}
		out = append(out, c03ObserveBig(c03Env, n, pwpool, idpool)...)
	}
	return out
}
