package main

import (
	"github.com/Ptt-official-app/go-pttbbs/bbs"
	"github.com/Ptt-official-app/go-pttbbs/ptttype"
)

func init() {
	register("C13", &propDriver{run: func(args [][]string) []string {
		switch ai(args[0][0]) {
		case 1: // aidu -> aidc
			a := ptttype.Aidu(au(args[1][0]))
			return okb(a.ToAidc()[:])
		case 2: // aidc (8 bytes) -> aidu
			aidc := &ptttype.Aidc{}
			copy(aidc[:], ab(args[1]))
			return ok(ou(uint64(aidc.ToAidu())))
		case 3: // filename (28 bytes) -> aidu
			fn := &ptttype.Filename_t{}
			copy(fn[:], ab(args[1]))
			return ok(ou(uint64(fn.ToAidu())))
		case 4: // aidu -> filename
			a := ptttype.Aidu(au(args[1][0]))
			return okb(a.ToFN()[:])
		case 5: // filename -> article id text
			fn := &ptttype.Filename_t{}
			copy(fn[:], ab(args[1]))
			return okb([]byte(bbs.ToArticleID(fn)))
		case 6: // article id text (any length) -> filename
			id := bbs.ArticleID(string(ab(args[1])))
			return okb(id.ToRaw()[:])
		}
		return []string{"9"}
	}})
}
