package main

import (
	"sync"

	"github.com/Ptt-official-app/go-pttbbs/bbs"
	"github.com/Ptt-official-app/go-pttbbs/ptttype"
)

func init() {
	register("C13", &propDriver{run: func(args [][]string) []string {
		switch ai(args[0][0]) {
		case 1: // aidu -> aidc
			a := ptttype.Aidu(au(args[1][0]))
			return okb(a.ToAidc()[:])
		case 2: // aidc (8 bytes) -> aidu
			aidc := &ptttype.Aidc{}
			copy(aidc[:], ab(args[1]))
			return ok(ou(uint64(aidc.ToAidu())))
		case 3: // filename (28 bytes) -> aidu
			fn := &ptttype.Filename_t{}
			copy(fn[:], ab(args[1]))
			return ok(ou(uint64(fn.ToAidu())))
		case 4: // aidu -> filename
			a := ptttype.Aidu(au(args[1][0]))
			return okb(a.ToFN()[:])
		case 5: // filename -> article id text
			fn := &ptttype.Filename_t{}
			copy(fn[:], ab(args[1]))
			return okb([]byte(bbs.ToArticleID(fn)))
		case 6: // article id text (any length) -> filename
			id := bbs.ArticleID(string(ab(args[1])))
			return okb(id.ToRaw()[:])
		case 7: // the same conversions from 8 goroutines at once: every answer must be the sequential one
			ids := make([]ptttype.Aidu, len(args[1]))
			for i, t := range args[1] {
				ids[i] = ptttype.Aidu(au(t))
			}
			type ans struct{ fn, raw, aid string }
			conv := func(a ptttype.Aidu) ans {
				fn := a.ToFN()
				aid := bbs.ToArticleID(fn)
				return ans{string(fn[:]), string(aid.ToRaw()[:]), string(aid)}
			}
			seq := make([]ans, len(ids))
			for i, a := range ids {
				seq[i] = conv(a)
			}
			const workers = 8
			bad := make([]int, workers)
			first := make([]int, workers)
			var wg sync.WaitGroup
			for w := 0; w < workers; w++ {
				wg.Add(1)
				go func(w int) {
					defer wg.Done()
					defer func() {
						if r := recover(); r != nil {
							bad[w] += 1000000 // a panic inside a conversion
						}
					}()
					first[w] = -1
					for rep := 0; rep < 20; rep++ {
						for i := range ids {
							k := (i*7 + w*13 + rep) % len(ids)
							if conv(ids[k]) != seq[k] {
								bad[w]++
								if first[w] < 0 {
									first[w] = k
								}
							}
						}
					}
				}(w)
			}
			wg.Wait()
			total, f := 0, -1
			for w := 0; w < workers; w++ {
				total += bad[w]
				if f < 0 && first[w] >= 0 {
					f = first[w]
				}
			}
			return ok(oi(int64(total)), oi(int64(f)))
		}
		return []string{"9"}
	}})
}
