package main

// C02, accounts: the password as the SERVER's entry points hand it on.
//
// Everything else in this driver calls crypt.Fcrypt / cmbbs.GenPasswd / cmbbs.CheckPasswd directly. Here a case is a
// HISTORY of account operations that carry a password from the caller down to those functions: the four bbs entry
// points that take a password string from the api (bbs.Register, bbs.Login, bbs.CheckPasswd, bbs.ChangePasswd) and the
// gin handlers in front of them (POST /register, /token, /user/:uid/changepasswd, /user/:uid/attemptchangeemail,
// /user/:uid/attemptsetidemail) on an in-process router. After every operation the stored hash of every account of the
// case is read straight out of .PASSWDS (not through the code under test).
//
//	7|h0|k|u|a|b|s|k|u|a|b|s|...
//
//	h0   the hash installed in the record of account 0 (SYSOP of the fixture) before the first operation — a hash as an
//	     existing .PASSWDS holds it (made by libcrypt, not by this code); empty: the fixture's own hash stays
//	u    the account: 0 = SYSOP (exists), 1.. = ids of c02AcctIDs (do not exist at the start)
//	k    1 Register(u, a)   2 Login(u, a)   3 CheckPasswd(u, a)   4 ChangePasswd(u, old = a, new = b)
//	     5 CheckPasswd(u, a) again (at the api layer: the second handler that asks for the password)
//	     k + 10: the same operation through the gin handler (the password travels as a json string: a, b must be utf8)
//	s    for the model only: the two salt bytes GenPasswd drew, read back from the stored hash by the check
//
// Result: status 0, then per operation  v  (1 accepted, 0 refused)  followed, for each of the accounts 0..c02AcctN-1, by
// n h1..hn — the PASSLEN bytes of the stored hash after the operation, n = 0 if .PASSWDS holds no record with that id.
// A panic inside an operation makes the whole case status 1.
//
//	8|h0|np|q1|...|qnp|k|u|a|b|s|...
//
// The same history, observed without the salts GenPasswd happened to draw (so that the whole answer is a function of the
// case and a replay can be compared with an expected line): instead of the bytes of a stored hash, per account
// n (0: no record, 1: record) and, if n = 1, cmbbs.CheckPasswd(stored hash, q) for each of the np probe passwords q.

import (
	"bytes"
	"encoding/json"
	"net/http/httptest"
	"net/url"
	"os"
	"path/filepath"
	"strings"
	"unicode/utf8"
	"unsafe"

	"github.com/Ptt-official-app/go-pttbbs/api"
	"github.com/Ptt-official-app/go-pttbbs/bbs"
	"github.com/Ptt-official-app/go-pttbbs/cmbbs"
	"github.com/Ptt-official-app/go-pttbbs/ptttype"
	"github.com/gin-gonic/gin"
)

var (
	c02Env     *bbsEnv
	c02Router  *gin.Engine
	c02Passwd0 []byte // .PASSWDS of the fixture
	c02AcctIDs = []string{"SYSOP", "Vrfyacct1", "Vrfyacct2"}
)

const (
	c02AcctN  = 3
	c02AcctIP = "127.0.0.1"
)

// the environment is built on the first case that needs it (the other operations of C02 need none)
func c02AcctSetup() {
	if c02Env != nil {
		return
	}
	c02Env = newBBSEnv("ptt", true)
	os.MkdirAll(filepath.Join(c02Env.home, "tmp"), 0o755)
	var err error
	c02Passwd0, err = os.ReadFile(filepath.Join(c02Env.home, ".PASSWDS"))
	must(err)
	gin.SetMode(gin.ReleaseMode)
	c02Router = gin.New()
	c02Router.POST(api.REGISTER_R, api.RegisterWrapper)
	c02Router.POST(api.LOGIN_R, api.LoginWrapper)
	c02Router.POST(api.CHANGE_PASSWD_R, api.ChangePasswdWrapper)
	c02Router.POST(api.ATTEMPT_CHANGE_EMAIL_R, api.AttemptChangeEmailWrapper)
	c02Router.POST(api.ATTEMPT_SET_ID_EMAIL_R, api.AttemptSetIDEmailWrapper)
}

func c02AcctTeardown() {
	if c02Env != nil {
		c02Env.close()
		c02Env = nil
	}
}

func c02Cstr(b []byte) []byte {
	if i := bytes.IndexByte(b, 0); i >= 0 {
		return b[:i]
	}
	return b
}

// the record of the account in .PASSWDS, found by its id in the file itself: (offset of the hash, true) or (0, false)
func c02AcctFind(fb []byte, id string) (int, bool) {
	sz := int(ptttype.USEREC_RAW_SZ)
	offID := int(unsafe.Offsetof(ptttype.USEREC_RAW.UserID))
	offPw := int(unsafe.Offsetof(ptttype.USEREC_RAW.PasswdHash))
	for k := 0; (k+1)*sz <= len(fb); k++ {
		rec := fb[k*sz : (k+1)*sz]
		if string(c02Cstr(rec[offID:offID+ptttype.IDLEN+1])) == id {
			return k*sz + offPw, true
		}
	}
	return 0, false
}

func c02AcctObserve(probes [][]byte) []string {
	fb, err := os.ReadFile(filepath.Join(c02Env.home, ".PASSWDS"))
	must(err)
	out := []string{}
	for _, id := range c02AcctIDs[:c02AcctN] {
		off, found := c02AcctFind(fb, id)
		if !found {
			out = append(out, "0")
			continue
		}
		if probes != nil {
			out = append(out, "1")
			for _, q := range probes {
				h := append([]byte(nil), fb[off:off+ptttype.PASSLEN]...)
				good, err := cmbbs.CheckPasswd(h[:len(h):len(h)], append([]byte(nil), q...))
				must(err)
				out = append(out, obool(good))
			}
			continue
		}
		out = append(out, oi(int64(ptttype.PASSLEN)))
		out = append(out, ob(fb[off:off+ptttype.PASSLEN])...)
	}
	return out
}

// c02AcctReset puts back the .PASSWDS of the fixture (kept in memory since the environment was built), removes what the
// registrations of the previous case left under home/, installs h0 in the record of account 0 and reloads shared memory.
func c02AcctReset(h0 []byte) {
	fb := append([]byte(nil), c02Passwd0...)
	if len(h0) > 0 {
		if len(h0) != ptttype.PASSLEN {
			panic("badcase:h0")
		}
		off, found := c02AcctFind(fb, c02AcctIDs[0])
		if !found {
			panic("fixture without " + c02AcctIDs[0])
		}
		copy(fb[off:off+ptttype.PASSLEN], h0)
	}
	must(os.WriteFile(filepath.Join(c02Env.home, ".PASSWDS"), fb, 0o600))
	for _, id := range c02AcctIDs[1:] {
		left, _ := filepath.Glob(filepath.Join(c02Env.home, "home", id[:1], id+"*"))
		for _, d := range left {
			os.RemoveAll(d)
		}
	}
	os.Remove(filepath.Join(c02Env.home, ".fresh"))
	c02Env.reload(true)
}

func c02AcctDo(path, auth string, body interface{}) int {
	b, err := json.Marshal(body)
	must(err)
	req := httptest.NewRequest("POST", path, bytes.NewReader(b))
	req.Header.Set("Content-Type", "application/json")
	req.Header.Set("Host", "localhost")
	req.Header.Set("X-Forwarded-For", c02AcctIP)
	if auth != "" {
		req.Header.Set("Authorization", "bearer "+auth)
	}
	w := httptest.NewRecorder()
	c02Router.ServeHTTP(w, req)
	return w.Code
}

// one operation; true = accepted
func c02AcctOp(k int64, id string, a, b []byte) bool {
	sa, sb := string(a), string(b)
	switch k {
	case 1:
		_, err := bbs.Register(id, sa, c02AcctIP, "verif@example.com", []byte("nick"), []byte("real"), []byte("career"), []byte("address"), true)
		return err == nil
	case 2:
		_, err := bbs.Login(id, sa, c02AcctIP)
		return err == nil
	case 3, 5:
		return bbs.CheckPasswd(bbs.UUserID(id), sa, c02AcctIP) == nil
	case 4:
		return bbs.ChangePasswd(bbs.UUserID(id), sa, sb, c02AcctIP) == nil
	}
	// the gin handlers: the password is a json string
	if !utf8.Valid(a) || !utf8.Valid(b) {
		panic("badcase:utf8")
	}
	userPath := func(route string) string { return strings.Replace(route, ":uid", url.PathEscape(id), 1) }
	token := func() string {
		tok, _, err := api.CreateToken(bbs.UUserID(id), "")
		must(err)
		return tok
	}
	switch k {
	case 11:
		return c02AcctDo(api.REGISTER_R, "", map[string]interface{}{"username": id, "password": sa, "email": "verif@example.com", "over18": true}) == 200
	case 12:
		return c02AcctDo(api.LOGIN_R, "", map[string]interface{}{"username": id, "password": sa}) == 200
	case 13:
		return c02AcctDo(userPath(api.ATTEMPT_CHANGE_EMAIL_R), token(), map[string]interface{}{"password": sa, "email": "verif2@example.com"}) == 200
	case 14:
		return c02AcctDo(userPath(api.CHANGE_PASSWD_R), token(), map[string]interface{}{"orig_password": sa, "password": sb}) == 200
	case 15:
		return c02AcctDo(userPath(api.ATTEMPT_SET_ID_EMAIL_R), token(), map[string]interface{}{"password": sa, "email": "abc@gmail.com"}) == 200
	}
	panic("badcase:op")
}

func c02accounts(groups [][]string, probed bool) []string {
	if len(groups) < 1 {
		return []string{"9"}
	}
	h0 := ab(groups[0])
	groups = groups[1:]
	var probes [][]byte
	if probed {
		if len(groups) < 1 || len(groups[0]) != 1 {
			return []string{"9"}
		}
		np := ai(groups[0][0])
		if np < 0 || np > 64 || int(np)+1 > len(groups) {
			return []string{"9"}
		}
		probes = [][]byte{}
		for _, g := range groups[1 : 1+np] {
			probes = append(probes, ab(g))
		}
		groups = groups[1+np:]
	}
	if len(groups)%5 != 0 {
		return []string{"9"}
	}
	c02AcctSetup()
	c02AcctReset(h0)
	out := []string{"0"}
	for i := 0; i < len(groups); i += 5 {
		if len(groups[i]) != 1 || len(groups[i+1]) != 1 {
			return []string{"9"}
		}
		k, u := ai(groups[i][0]), ai(groups[i+1][0])
		if u < 0 || u >= c02AcctN {
			return []string{"9"}
		}
		out = append(out, obool(c02AcctOp(k, c02AcctIDs[u], ab(groups[i+2]), ab(groups[i+3]))))
		out = append(out, c02AcctObserve(probes)...)
	}
	return out
}
