package main

// C20, the environments the plain history driver (kind 1) does not have.
//
//   5 <layout>|<bytes of .PASSWDS>|op|op|...
//       the history of kind 1 (same operations, same observation, same result line) on an installation whose
//       BBSHOME/.PASSWDS is a symbolic link to the record file: layout 1 = absolute link into another directory
//       ("another volume"), 2 = relative link to a file next to it, 3 = a chain link -> link -> file. Every observation
//       is read through the name .PASSWDS, as every reader of the tree does. After the history the name must still be
//       the link the case put there (an implementation that replaces the link by a private copy: status 3 77).
//
//   6 <mode>|<bytes of .PASSWDS>|g k uid amount|g k uid|...       k: 1 SetUMoney, 2 DeUMoney, 3 MoneyOf
//       money operations issued by several goroutines of THIS ONE process (a server process runs one goroutine per
//       request). The operations of one g run in the order given, those of different g concurrently. Different g must
//       address different slots (two concurrent updates of ONE balance are outside the property): otherwise 9.
//       mode 0: all goroutines are released together and run free (one round that holds every operation).
//       mode 1: lock step with a schedule point the kernel provides: round r = the r-th operation of every goroutine. Before
//       a round the driver takes a read lease (fcntl F_SETLEASE) on .PASSWDS, so that every open-for-writing of the
//       file blocks inside open(2); it starts the round, waits until every goroutine of the round is either blocked in
//       openat or has returned, and only then gives the lease up. Every goroutine has then executed whatever the
//       implementation does before it opens the file, and none has written yet - the interleaving "all of them before the
//       open, then all of them after it", held still by the kernel and not by timing. (The wait has a generous upper bound and
//       the lease has the kernel's lease-break-time; neither decides a verdict: the unchanged code is right in every
//       interleaving.)
//       result: 0 <1 if every round was held by a lease, else 0> <observation> { <n> (<status> <value> <code>)*n <observation> }*rounds
//       the n triples of a round are in the order the operations have in the case line.

import (
	"os"
	"path/filepath"
	"strconv"
	"strings"
	"sync"
	"sync/atomic"
	"syscall"
	"time"

	"github.com/Ptt-official-app/go-pttbbs/ptttype"
)

// c20Layout puts init behind the name .PASSWDS in the given layout; the returned function removes everything again and
// leaves an empty regular file.
func c20Layout(env *bbsEnv, layout int64, init []byte) (undo func(), isLink func() bool) {
	dir := filepath.Dir(ptttype.FN_PASSWD)
	hop := filepath.Join(dir, ".PASSWDS.hop")
	var real string
	switch layout {
	case 0:
		os.Remove(ptttype.FN_PASSWD)
		must(os.WriteFile(ptttype.FN_PASSWD, init, 0o600))
		return func() {}, func() bool { return true }
	case 1, 3:
		vol := filepath.Join(env.root, "volume2")
		must(os.MkdirAll(vol, 0o755))
		real = filepath.Join(vol, "PASSWDS.records")
	case 2:
		real = filepath.Join(dir, ".PASSWDS.real")
	default:
		panic("badcase:layout")
	}
	os.Remove(ptttype.FN_PASSWD)
	os.Remove(hop)
	must(os.WriteFile(real, init, 0o600))
	switch layout {
	case 1:
		must(os.Symlink(real, ptttype.FN_PASSWD))
	case 2:
		must(os.Symlink(".PASSWDS.real", ptttype.FN_PASSWD))
	case 3:
		must(os.Symlink(real, hop))
		must(os.Symlink(".PASSWDS.hop", ptttype.FN_PASSWD))
	}
	isLink = func() bool {
		st, err := os.Lstat(ptttype.FN_PASSWD)
		return err == nil && st.Mode()&os.ModeSymlink != 0
	}
	undo = func() {
		os.Remove(ptttype.FN_PASSWD)
		os.Remove(hop)
		os.Remove(real)
		must(os.WriteFile(ptttype.FN_PASSWD, nil, 0o600))
	}
	return undo, isLink
}

// c20History: kinds 1 and 5
func c20History(env *bbsEnv, args [][]string, layout int64) []string {
	if len(args) < 2 {
		return []string{"9"}
	}
	init := ab(args[1])
	undo, isLink := c20Layout(env, layout, init)
	defer undo()
	env.reload(false)
	c20Pending = map[ptttype.UID]*ptttype.UserecRaw{}
	out := ok(c20Observe(init)...)
	for _, g := range args[2:] {
		if len(g) < 2 {
			return []string{"9"}
		}
		out = append(out, c20Step(g)...)
		out = append(out, oi(c20Field(c20Target(g))))
		out = append(out, c20Observe(init)...)
	}
	if !isLink() {
		return []string{"3", "77"}
	}
	return out
}

// ---------------------------------------------------------------- several goroutines of one process

type c20ParOp struct {
	g    int64
	toks []string
	res  []string
	open bool // a set / credit / debit on a valid slot: the unchanged code opens .PASSWDS for it
}

const c20SetLease = 1024 // F_SETLEASE

func c20TakeLease() *os.File {
	f, err := os.Open(ptttype.FN_PASSWD)
	if err != nil {
		return nil
	}
	if _, _, e := syscall.Syscall(syscall.SYS_FCNTL, f.Fd(), c20SetLease, uintptr(syscall.F_RDLCK)); e != 0 {
		f.Close()
		return nil
	}
	return f
}

func c20DropLease(f *os.File) {
	syscall.Syscall(syscall.SYS_FCNTL, f.Fd(), c20SetLease, uintptr(syscall.F_UNLCK))
	f.Close()
}

// threads of this process that are inside openat(2) right now
func c20TasksInOpen() int {
	ents, err := os.ReadDir("/proc/self/task")
	if err != nil {
		return 0
	}
	pre := strconv.Itoa(syscall.SYS_OPENAT) + " "
	n := 0
	for _, e := range ents {
		b, err := os.ReadFile("/proc/self/task/" + e.Name() + "/syscall")
		if err == nil && strings.HasPrefix(string(b), pre) {
			n++
		}
	}
	return n
}

// one round: every batch in its own goroutine, all released together; hold = behind a lease (see above)
func c20Round(batches [][]*c20ParOp, hold bool) (held bool) {
	var lease *os.File
	if hold {
		lease = c20TakeLease()
	}
	start := make(chan struct{})
	var wg sync.WaitGroup
	var finished int32
	for _, b := range batches {
		wg.Add(1)
		go func(b []*c20ParOp) {
			defer wg.Done()
			<-start
			for _, p := range b {
				p.res = c20Step(p.toks)
			}
			atomic.AddInt32(&finished, 1)
		}(b)
	}
	close(start)
	if lease != nil {
		deadline := time.Now().Add(20 * time.Second)
		for time.Now().Before(deadline) {
			if c20TasksInOpen()+int(atomic.LoadInt32(&finished)) >= len(batches) {
				break
			}
			time.Sleep(time.Millisecond)
		}
		c20DropLease(lease)
	}
	wg.Wait()
	return lease != nil
}

func c20Parallel(env *bbsEnv, args [][]string) []string {
	if len(args) < 2 || len(args[0]) != 2 {
		return []string{"9"}
	}
	mode := ai(args[0][1])
	if mode != 0 && mode != 1 {
		return []string{"9"}
	}
	init := ab(args[1])
	undo, _ := c20Layout(env, 0, init)
	defer undo()
	env.reload(false)
	ops := []*c20ParOp{}
	order := []int64{}
	perG := map[int64][]*c20ParOp{}
	owner := map[int64]int64{}
	for _, g := range args[2:] {
		if len(g) < 3 {
			return []string{"9"}
		}
		k := ai(g[1])
		if k < 1 || k > 3 || (k != 3 && len(g) != 4) {
			return []string{"9"}
		}
		p := &c20ParOp{g: ai(g[0]), toks: g[1:]}
		slot := ai(g[2])
		if o, seen := owner[slot]; seen && o != p.g {
			return []string{"9"}
		}
		owner[slot] = p.g
		p.open = k != 3 && ptttype.UID(int32(slot)).IsValid()
		if _, seen := perG[p.g]; !seen {
			order = append(order, p.g)
		}
		perG[p.g] = append(perG[p.g], p)
		ops = append(ops, p)
	}
	rounds := [][]*c20ParOp{}    // the operations of each round in case-line order
	batches := [][][]*c20ParOp{} // per round, per goroutine
	if mode == 0 {
		bs := [][]*c20ParOp{}
		for _, g := range order {
			bs = append(bs, perG[g])
		}
		rounds, batches = append(rounds, ops), append(batches, bs)
	} else {
		for r := 0; ; r++ {
			round, bs := []*c20ParOp{}, [][]*c20ParOp{}
			for _, g := range order {
				if r < len(perG[g]) {
					round = append(round, perG[g][r])
					bs = append(bs, []*c20ParOp{perG[g][r]})
				}
			}
			if len(round) == 0 {
				break
			}
			rounds, batches = append(rounds, round), append(batches, bs)
		}
	}
	body := c20Observe(init)
	allHeld := int64(1)
	for r := range rounds {
		if len(batches[r]) == 0 {
			continue
		}
		if !c20Round(batches[r], mode == 1) {
			allHeld = 0
		}
		body = append(body, strconv.Itoa(len(rounds[r])))
		for _, p := range rounds[r] {
			body = append(body, p.res...)
		}
		body = append(body, c20Observe(init)...)
	}
	return append(ok(oi(allHeld)), body...)
}
