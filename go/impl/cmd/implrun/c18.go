package main

import (
	"bufio"
	"bytes"

	"github.com/Ptt-official-app/go-pttbbs/cmbbs"
	"github.com/Ptt-official-app/go-pttbbs/cmsys"
	"github.com/Ptt-official-app/go-pttbbs/ptt"
	"github.com/Ptt-official-app/go-pttbbs/ptttype"
	"github.com/Ptt-official-app/go-pttbbs/types"
)

// C18: the byte-string helpers, called directly. Slices are built with exact capacity (ab), helpers that
// work in place get a private copy whose final content is part of the result.
func init() {
	register("C18", &propDriver{run: func(args [][]string) []string {
		switch ai(args[0][0]) {
		case 28: // a helper called on buf[:n] of a larger, dirty buffer: c18env.go
			return c18window(args)
		case 29: // helpers called by several goroutines of this process at the same time: c18env.go
			return c18conc(args)
		}
		return c18run(args, ab)
	}})
}

// c18run calls one helper; mk builds the byte-slice arguments from their token groups (ab: exact capacity; the
// window operation 28 hands over buf[:n] of a larger buffer instead).
func c18run(args [][]string, ab func([]string) []byte) []string {
	// len(first) first... second...
	two := func(first, second []byte) []string {
		out := []string{"0", oi(int64(len(first)))}
		out = append(out, ob(first)...)
		return append(out, ob(second)...)
	}
	{
		switch ai(args[0][0]) {
		case 1:
			return ok(oi(int64(types.Cstrlen(ab(args[1])))))
		case 2:
			return okb(types.CstrToBytes(ab(args[1])))
		case 3:
			return okb(types.CstrTolower(ab(args[1])))
		case 4:
			return okb(types.CstrToupper(ab(args[1])))
		case 5:
			c := byte(ai(args[1][0]))
			return ok(obool(types.Isalpha(c)), obool(types.Isnumber(c)), obool(types.Isalnum(c)), obool(types.Isascii(c)),
				oi(int64(types.CcharTolower(c))), oi(int64(types.CcharToupper(c))))
		case 6: // ReadLine until EOF over an in-memory stream
			b := ab(args[1])
			r := bufio.NewReader(bytes.NewReader(b))
			var lines [][]byte
			done := false
			for i := 0; i <= len(b)+1; i++ {
				line, err := types.ReadLine(r)
				if err != nil {
					done = true
					break
				}
				lines = append(lines, line) // deliberately not copied: a caller may keep the line while reading on
			}
			if !done {
				return []string{"2"}
			}
			out := []string{"0", oi(int64(len(lines)))}
			for _, l := range lines {
				out = append(out, oi(int64(len(l))))
				out = append(out, ob(l)...)
			}
			return out
		case 7:
			a := ab(args[1])
			return two(types.TrimDBCS(a), a)
		case 8:
			return ok(ou(uint64(cmsys.StringHash(ab(args[1])))))
		case 9:
			return ok(ou(uint64(cmsys.StringHashWithHashBits(ab(args[1])))))
		case 10:
			kind := ai(args[1][0])
			s := ab(args[2])
			h := au(args[3][0])
			n := ai(args[4][0])
			switch kind {
			case 1:
				return ok(ou(uint64(cmsys.VerifFnv32Bytes(s, cmsys.Fnv32_t(h)))))
			case 2:
				return ok(ou(uint64(cmsys.VerifFnv1a32Bytes(s, cmsys.Fnv32_t(h)))))
			case 3:
				return ok(ou(uint64(cmsys.VerifFnv1a32StrCase(s, cmsys.Fnv32_t(h)))))
			case 4:
				return ok(ou(uint64(cmsys.VerifFnv1a32DBCSCase(s, cmsys.Fnv32_t(h)))))
			case 5:
				return ok(ou(uint64(cmsys.VerifFnv64Bytes(s, cmsys.Fnv64_t(h)))))
			case 6:
				return ok(ou(uint64(cmsys.VerifFnv1a64Bytes(s, cmsys.Fnv64_t(h)))))
			case 7:
				return ok(ou(uint64(cmsys.VerifFnv1a64StrCase(s, cmsys.Fnv64_t(h)))))
			case 8:
				return ok(ou(uint64(cmsys.VerifFnv1a64DBCSCase(s, cmsys.Fnv64_t(h)))))
			case 9:
				return ok(ou(uint64(cmsys.Fnv64Buf(s, int(n), cmsys.Fnv64_t(h)))))
			case 10:
				if len(s) != 1 {
					return []string{"9"}
				}
				return ok(ou(uint64(cmsys.VerifFnv1aByte(s[0], cmsys.Fnv32_t(h)))))
			}
			return []string{"9"}
		case 11:
			return okb(cmsys.StripBlank(ab(args[1])))
		case 12:
			s := ab(args[1])
			return two(cmsys.StripNoneBig5(s), s)
		case 13:
			return okb(cmsys.StripAnsi(ab(args[1]), cmsys.StripAnsiFlag(ai(args[2][0]))))
		case 14:
			return okb(cmsys.Trim(ab(args[1])))
		case 15:
			return okb(cmsys.DBCSSafeTrim(ab(args[1])))
		case 16:
			return ok(oi(int64(cmsys.DBCSStatus(ab(args[1]), int(ai(args[2][0]))))))
		case 17:
			return ok(oi(int64(cmsys.DBCSNextStatus(byte(ai(args[1][0])), cmsys.DBCSStatus_t(ai(args[2][0]))))))
		case 18:
			title := &ptttype.Title_t{}
			copy(title[:], ab(args[1]))
			ty, nt := cmbbs.SubjectEx(title)
			return append([]string{"0", oi(int64(ty))}, ob(nt)...)
		case 19:
			return okb(ptt.StripANSIMoveCmd(ab(args[1])))
		case 20:
			return ok(oi(int64(types.Cstrcmp(ab(args[1]), ab(args[2])))))
		case 21:
			return ok(oi(int64(types.Cstrcasecmp(ab(args[1]), ab(args[2])))))
		case 22:
			return ok(oi(int64(types.Cstrstr(ab(args[1]), ab(args[2])))))
		case 23:
			return ok(oi(int64(types.Cstrcasestr(ab(args[1]), ab(args[2])))))
		case 24:
			return ok(obool(types.CstrCaseHasPrefix(ab(args[1]), ab(args[2]))))
		case 25:
			f, r := types.CstrTokenR(ab(args[1]), ab(args[2]))
			return two(f, r)
		case 26, 27: // ReadLine over failing readers, FileFindRecord on real files: c18io.go
			return c18io(args)
		}
		return []string{"9"}
	}
}
