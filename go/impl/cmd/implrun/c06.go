package main

// C06: drives cmsys.FindRecordStartIdx / GetRecord / GetRecords on real .DIR files written from the case line,
// a page walk composed of them the way ptt.LoadGeneralArticles + bbs.LoadGeneralArticles do, and the same walk
// through bbs.LoadGeneralArticles itself on a board of the scratch BBS environment.
//
// entries group: pairs "t nm"; t >= 0: file name M.<t as 10 digits>.A.<nm as 3 hex digits>;
// t = -1: delete-marked (".deleted", owner "-"); t = -2: all-zero record; t = -3: garbage digits in the time field.
//
// Site configuration: a first group "20 sd op" runs op with the safe-delete prefix FN_SAFEDEL configured to sd bytes
// (2 = the default ".d", 8 = ".deleted", the other value of pttbbs common.h) through the configuration key
// go-pttbbs:ptttype.fn_safedel and ptttype.InitConfig(); every other case runs under the default.

import (
	"bytes"
	"encoding/binary"
	"errors"
	"fmt"
	"io"
	"os"
	"path/filepath"
	"strconv"
	"strings"
	"syscall"

	"github.com/Ptt-official-app/go-pttbbs/bbs"
	"github.com/Ptt-official-app/go-pttbbs/cache"
	"github.com/Ptt-official-app/go-pttbbs/cmbbs/path"
	"github.com/Ptt-official-app/go-pttbbs/cmsys"
	"github.com/Ptt-official-app/go-pttbbs/ptt"
	"github.com/Ptt-official-app/go-pttbbs/ptttype"
	"github.com/Ptt-official-app/go-pttbbs/types"
	"github.com/spf13/viper"
)

type c06Entry struct {
	t  int64
	nm int64
}

func c06Name(t, nm int64) *ptttype.Filename_t {
	fn := &ptttype.Filename_t{}
	copy(fn[:], []byte(fmt.Sprintf("M.%010d.A.%03X", t, nm)))
	return fn
}

func c06Header(e c06Entry) *ptttype.FileHeaderRaw {
	h := &ptttype.FileHeaderRaw{}
	switch {
	case e.t >= 0:
		h.Filename = *c06Name(e.t, e.nm)
		copy(h.Owner[:], []byte("SYSOP"))
		copy(h.Date[:], []byte(" 9/30"))
		copy(h.Title[:], []byte(fmt.Sprintf("[test] entry %d", e.nm)))
		h.Modified = types.Time4(e.t)
	case e.t == -1:
		copy(h.Filename[:], []byte(".deleted"))
		copy(h.Owner[:], []byte("-"))
		copy(h.Title[:], []byte("(deleted)"))
	case e.t == -2:
		// all zero
	default:
		copy(h.Filename[:], []byte(fmt.Sprintf("M.15000x%04d.A.%03X", e.nm%10000, e.nm)))
		copy(h.Owner[:], []byte("SYSOP"))
		copy(h.Title[:], []byte("garbage time"))
	}
	return h
}

func c06Parse(toks []string) []c06Entry {
	if len(toks)%2 != 0 {
		panic("badcase:entries")
	}
	es := make([]c06Entry, len(toks)/2)
	for i := range es {
		es[i] = c06Entry{ai(toks[2*i]), ai(toks[2*i+1])}
	}
	return es
}

func c06Bytes(es []c06Entry) []byte {
	buf := &bytes.Buffer{}
	for _, e := range es {
		if err := binary.Write(buf, binary.LittleEndian, c06Header(e)); err != nil {
			panic(err)
		}
	}
	return buf.Bytes()
}

func c06Err(err error) []string {
	var ne *strconv.NumError
	var pe *os.PathError
	switch {
	case errors.Is(err, cmsys.ErrRecordNotFound):
		return errs(1)
	case errors.Is(err, io.EOF), errors.Is(err, io.ErrUnexpectedEOF):
		return errs(2)
	case errors.As(err, &pe), errors.Is(err, syscall.EINVAL):
		return errs(3)
	case errors.Is(err, ptttype.ErrInvalidIdx):
		return errs(4)
	case errors.As(err, &ne):
		return errs(5)
	case errors.Is(err, bbs.ErrInvalidParams):
		return errs(7)
	case errors.Is(err, ptt.ErrNoRecord):
		return errs(8)
	case errors.Is(err, cmsys.ErrPttLock):
		return errs(10) // refused by the per-process lock table
	}
	if os.Getenv("VERIF_SHOW_PANIC") != "" {
		fmt.Fprintln(os.Stderr, "unmapped error:", err)
	}
	return errs(6)
}

func c06ErrCode(err error) int64 { return ai(c06Err(err)[1]) }

// (t, nm) of a file name, or (-1, 0) when it has no parsable creation time
func c06Ident(fn *ptttype.Filename_t) (int64, int64) {
	ct, err := fn.CreateTime()
	if err != nil {
		return -1, 0
	}
	nm, err := strconv.ParseInt(string(fn.Postfix()), 16, 64)
	if err != nil {
		return int64(ct), -1
	}
	return int64(ct), nm
}

func init() {
	var env *bbsEnv
	var dir string       // scratch directory of the cmsys-level file
	var dirFile string   // cmsys-level .DIR
	var lastKey [2]string // entries group last written to (cmsys file, board file)
	var bid ptttype.Bid
	boardID := &ptttype.BoardID_t{}
	copy(boardID[:], []byte("WhoAmI"))
	var boardDir string

	// layout of the index path (wrapper "30 layout op"): 0 a regular file; 1 a symbolic link to a file next to it
	// (relative target); 2 a symbolic link to a file in another directory (absolute target); 3 a chain of two links;
	// 4 a second hard link of a file kept under another name.  firstAccess: the board's cached article count is NOT
	// set by the harness but reset to 0 ("not yet in shared memory") and obtained by the project's own first-access
	// path cache.GetBTotalWithRetry -> SetBTotal.
	layout := int64(0)
	firstAccess := false
	write := func(slot int, fn string, toks []string) []c06Entry {
		es := c06Parse(toks)
		key := fmt.Sprintf("%d:%v:", layout, firstAccess) + strings.Join(toks, " ")
		if lastKey[slot] != key {
			c06Place(fn, filepath.Join(dir, fmt.Sprintf("vol%d.DIR", slot)), layout, c06Bytes(es))
			lastKey[slot] = key
			if slot == 1 {
				if firstAccess {
					cache.Shm.Shm.Total[bid.ToBidInStore()] = 0
					// the error of an unparsable LAST entry (no last post time) is ignored as below; the count is stored before it
					_, _ = cache.GetBTotalWithRetry(bid)
				} else {
					// SetBTotal stores the record count first and then fails on an unparsable LAST entry
					// (it cannot derive the last post time); the count is what the listing needs.
					_ = cache.SetBTotal(bid)
				}
			}
		}
		return es
	}
	var runBase func(args [][]string) []string

	register("C06", &propDriver{
		setup: func() {
			env = newBBSEnv("ptt", true)
			var err error
			dir, err = os.MkdirTemp("", "verifc06")
			must(err)
			dirFile = filepath.Join(dir, ".DIR")
			bid, err = cache.GetBid(boardID)
			must(err)
			boardDir, err = path.SetBFile(boardID, ptttype.FN_DIR)
			must(err)
			must(os.MkdirAll(filepath.Dir(boardDir), 0o755))
			lastKey = [2]string{"\x00", "\x00"}
		},
		teardown: func() {
			os.RemoveAll(dir)
			env.close()
		},
		run: func(args [][]string) []string {
			layout, firstAccess = 0, false
			switch ai(args[0][0]) {
			case 30: // "30 layout op": op on an index reached through that path layout, count by first access
				if len(args[0]) != 3 || ai(args[0][1]) < 0 || ai(args[0][1]) > 4 {
					return []string{"9"}
				}
				layout, firstAccess = ai(args[0][1]), true
				return runBase(append([][]string{{args[0][2]}}, args[1:]...))
			case 31: // "31 mode op": op while another operation of this process is inside the same index
				if len(args[0]) != 3 || len(args) < 2 {
					return []string{"9"}
				}
				inner := append([][]string{{args[0][2]}}, args[1:]...)
				slot, fn := 0, dirFile
				switch ai(args[0][2]) {
				case 1, 2, 3, 4:
				case 5, 7:
					slot, fn = 1, boardDir
				default:
					return []string{"9"}
				}
				write(slot, fn, inner[1])
				defer func() { lastKey[slot] = "\x00" }() // a released writer changes the file
				return c06Overlap(ai(args[0][1]), fn, int(len(inner[1])/2), func() []string { return runBase(inner) })
			}
			return runBase(args)
		},
	})
	runBase = func(args [][]string) []string {
			sd := int64(2)
			if ai(args[0][0]) == 20 { // "20 sd op": op under FN_SAFEDEL of sd bytes
				if len(args[0]) != 3 {
					return []string{"9"}
				}
				sd = ai(args[0][1])
				if sd < 2 || sd > 8 {
					return []string{"9"}
				}
				args = append([][]string{{args[0][2]}}, args[1:]...)
			}
			c06SetSafeDel(sd)
			switch ai(args[0][0]) {
			case 1: // FindRecordStartIdx: total T hasname nm desc
				write(0, dirFile, args[1])
				p := args[2]
				T := ai(p[1])
				var fn *ptttype.Filename_t
				if ai(p[2]) != 0 {
					fn = c06Name(T, ai(p[3]))
				}
				idx, err := cmsys.FindRecordStartIdx(dirFile, int(ai(p[0])), types.Time4(T), fn, ai(p[4]) != 0)
				if err != nil {
					return c06Err(err)
				}
				return ok(oi(int64(idx)))
			case 2: // GetRecord: total T nm
				write(0, dirFile, args[1])
				p := args[2]
				fn := c06Name(ai(p[1]), ai(p[2]))
				idx, hdr, err := cmsys.GetRecord(dirFile, fn, int(ai(p[0])))
				if err != nil {
					return c06Err(err)
				}
				if hdr == nil || hdr.Filename != *fn {
					return []string{"0", oi(int64(idx)), "-99"} // a header that is not the one asked for
				}
				return ok(oi(int64(idx)))
			case 3: // GetRecords: start n desc
				write(0, dirFile, args[1])
				p := args[2]
				ss, err := cmsys.GetRecords(boardID, dirFile, ptttype.SortIdx(ai(p[0])), int(ai(p[1])), ai(p[2]) != 0)
				if err != nil {
					return c06Err(err)
				}
				out := []string{"0"}
				for _, s := range ss {
					t, nm := c06Ident(&s.Filename)
					out = append(out, oi(int64(s.Aid)), oi(t), oi(nm))
				}
				return out
			case 4: // page walk composed from cmsys calls: k desc
				es := write(0, dirFile, args[1])
				k, desc := int(ai(args[2][0])), ai(args[2][1]) != 0
				total := cmsys.GetNumRecords(dirFile, ptttype.FILE_HEADER_RAW_SZ)
				visited := []string{}
				pages := int64(0)
				fin := func(code int64) []string { return append([]string{"0", oi(code), oi(pages)}, visited...) }
				start := ptttype.SortIdx(1)
				if desc {
					start = 0
				}
				for iter := 0; iter < 2*len(es)+3; iter++ {
					if total == 0 {
						pages++
						return fin(0)
					}
					if start == 0 && desc {
						start = ptttype.SortIdx(total)
					}
					ss, err := cmsys.GetRecords(boardID, dirFile, start, k+1, desc)
					if err != nil {
						return fin(c06ErrCode(err))
					}
					pages++
					var next *ptttype.ArticleSummaryRaw
					if len(ss) == k+1 {
						next = ss[k]
						ss = ss[:k]
					}
					for _, s := range ss {
						// the summary must be the record at that position of the file
						if p := int64(s.Aid); p < 1 || p > int64(len(es)) || s.Filename != c06Header(es[p-1]).Filename {
							return fin(90)
						}
						visited = append(visited, oi(int64(s.Aid)))
					}
					if next == nil {
						return fin(0)
					}
					if p := int64(next.Aid); p < 1 || p > int64(len(es)) || next.Filename != c06Header(es[p-1]).Filename {
						return fin(90)
					}
					ct, err := next.Filename.CreateTime()
					if err != nil {
						return fin(5)
					}
					start, err = cmsys.FindRecordStartIdx(dirFile, total, ct, &next.Filename, desc)
					if err != nil {
						return fin(c06ErrCode(err))
					}
				}
				return []string{"2"}
			case 5: // the same walk through bbs.LoadGeneralArticles
				es := write(1, boardDir, args[1])
				k, desc := int(ai(args[2][0])), ai(args[2][1]) != 0
				visited := []string{}
				pages := int64(0)
				fin := func(code int64) []string { return append([]string{"0", oi(code), oi(pages)}, visited...) }
				bboardID := bbs.BBoardID(fmt.Sprintf("%d_WhoAmI", bid))
				cursor := ""
				for iter := 0; iter < 2*len(es)+3; iter++ {
					ss, nextIdx, _, _, startNum, err := bbs.LoadGeneralArticles(bbs.UUserID("SYSOP"), bboardID, cursor, k, desc)
					if err != nil {
						return fin(c06ErrCode(err))
					}
					pages++
					for i, s := range ss {
						idx := int64(startNum) + int64(i)
						if desc {
							idx = int64(startNum) - int64(i)
						}
						// the summary must be the record at that position of the file
						if idx < 1 || idx > int64(len(es)) || s.Filename != types.CstrToString(c06Header(es[idx-1]).Filename[:]) {
							return fin(90)
						}
						visited = append(visited, oi(idx))
					}
					if nextIdx == "" {
						return fin(0)
					}
					cursor = nextIdx
				}
				return []string{"2"}
			case 7: // one bbs.LoadGeneralArticles call with a client-supplied cursor: hascur T nm k desc
				es := write(1, boardDir, args[1])
				p := args[2]
				cursor := ""
				if ai(p[0]) != 0 {
					cursor = c06Cursor(ai(p[1]), ai(p[2]))
				}
				page, code := c06Page(es, bid, cursor, int(ai(p[3])), ai(p[4]) != 0)
				if code != 0 {
					return errs(int(code))
				}
				return append([]string{"0"}, page.wire()...)
			case 8: // bbs.LoadGeneralArticles walk on its own cursors, entries deleted between pages: k desc | page pos ...
				es := write(1, boardDir, args[1])
				lastKey[1] = "\x00" // the board file is modified below
				k, desc := int(ai(args[2][0])), ai(args[2][1]) != 0
				var dels []c06Entry // t = page number, nm = 0-based position
				if len(args) > 3 {
					dels = c06Parse(args[3])
				}
				es = append([]c06Entry{}, es...)
				visited := []string{}
				trace := []string{}
				pages := int64(0)
				fin := func(code int64) []string {
					out := append([]string{"0", oi(code), oi(pages), oi(int64(len(visited)))}, visited...)
					return append(out, trace...)
				}
				cursor := ""
				for iter := 0; iter < 2*len(es)+6; iter++ {
					for _, d := range dels {
						if d.t == pages && d.nm >= 0 && d.nm < int64(len(es)) {
							// what deleting an article does to its index entry (demo of the seed uses the same call)
							must(cmsys.SubstituteRecord(boardDir, c06Header(c06Entry{-1, 0}), ptttype.FILE_HEADER_RAW_SZ, int32(d.nm)))
							es[d.nm] = c06Entry{-1, 0}
						}
					}
					page, code := c06Page(es, bid, cursor, k, desc)
					if code != 0 {
						return fin(code)
					}
					pages++
					for i := int64(0); i < page.count; i++ {
						if desc {
							visited = append(visited, oi(page.first-i))
						} else {
							visited = append(visited, oi(page.first+i))
						}
					}
					trace = append(trace, page.wire()...)
					if page.next == "" {
						return fin(0)
					}
					if page.nextT == -2 {
						// the cursor text of an unparsable entry: the next request fails in DeserializeArticleIdxStr
						_, code = c06Page(es, bid, page.next, k, desc)
						if code == 0 {
							code = 91
						}
						return fin(code)
					}
					cursor = page.next
				}
				return []string{"2"}
			case 21: // Filename_t.Eq under the configured prefix: sd t nm t' nm'
				p := args[1]
				if ai(p[0]) != int64(ptttype.FN_SAFEDEL_PREFIX_LEN) {
					return []string{"9"}
				}
				if c06Name(ai(p[1]), ai(p[2])).Eq(c06Name(ai(p[3]), ai(p[4]))) {
					return ok("1")
				}
				return ok("0")
			}
			return []string{"9"}
	}
}

// the site configuration FN_SAFEDEL = the first sd bytes of ".deleted" (sd = 2: ".d", the default), set the way a
// site sets it: the configuration key, then ptttype.InitConfig() (config() + postInitConfig() -> setFNSafeDel)
func c06SetSafeDel(sd int64) {
	want := ".deleted"[:sd]
	if ptttype.FN_SAFEDEL == want && ptttype.FN_SAFEDEL_PREFIX_LEN == len(want) {
		return
	}
	home := ptttype.BBSHOME
	viper.Set("go-pttbbs:ptttype.fn_safedel", want)
	must(ptttype.InitConfig())
	if ptttype.FN_SAFEDEL != want || ptttype.FN_SAFEDEL_PREFIX_LEN != len(want) || string(ptttype.FN_SAFEDEL_b) != want || ptttype.BBSHOME != home {
		panic("badcase:FN_SAFEDEL not configured")
	}
}

// the cursor text a client would send for M.<t>.A.<nm>
func c06Cursor(t, nm int64) string {
	return strconv.FormatInt(t, 10) + "@" + string(bbs.ToArticleID(c06Name(t, nm)))
}

type c06PageT struct {
	count, first int64
	next         string // cursor text handed out ("" = none)
	nextT, nextNm int64 // its (t, nm); (-1, 0) = none, (-2, 0) = text that DeserializeArticleIdxStr rejects
}

func (p *c06PageT) wire() []string {
	return []string{oi(p.count), oi(p.first), oi(p.nextT), oi(p.nextNm)}
}

// one bbs.LoadGeneralArticles call on the board whose file holds es; code != 0: the error of the call
// (90: a summary that is not the record at the position it is reported at)
func c06Page(es []c06Entry, bid ptttype.Bid, cursor string, k int, desc bool) (*c06PageT, int64) {
	bboardID := bbs.BBoardID(fmt.Sprintf("%d_WhoAmI", bid))
	ss, nextIdx, _, _, startNum, err := bbs.LoadGeneralArticles(bbs.UUserID("SYSOP"), bboardID, cursor, k, desc)
	if err != nil {
		return nil, c06ErrCode(err)
	}
	p := &c06PageT{count: int64(len(ss)), next: nextIdx, nextT: -1}
	for i, s := range ss {
		idx := int64(startNum) + int64(i)
		if desc {
			idx = int64(startNum) - int64(i)
		}
		if idx < 1 || idx > int64(len(es)) || s.Filename != types.CstrToString(c06Header(es[idx-1]).Filename[:]) {
			return nil, 90
		}
		if i == 0 {
			p.first = idx
		}
	}
	if nextIdx != "" {
		ct, aid, err := bbs.DeserializeArticleIdxStr(nextIdx)
		if err != nil {
			p.nextT = -2
		} else {
			t, nm := c06Ident(aid.ToRaw())
			if t != int64(ct) {
				return nil, 92
			}
			p.nextT, p.nextNm = t, nm
		}
	}
	return p, 0
}
