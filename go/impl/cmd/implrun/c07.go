package main

// C07 — board read access. Every decision-table row is materialised in a scratch BBS environment
// (user record in .PASSWDS, board header + moderator cache in shared memory, friend file "visable")
// and pushed through every read entry point of the ptt layer and a subset of the bbs wrappers.

import (
	"os"
	"path/filepath"

	"github.com/Ptt-official-app/go-pttbbs/bbs"
	"github.com/Ptt-official-app/go-pttbbs/cache"
	"github.com/Ptt-official-app/go-pttbbs/cmbbs"
	"github.com/Ptt-official-app/go-pttbbs/ptt"
	"github.com/Ptt-official-app/go-pttbbs/ptttype"
	"github.com/Ptt-official-app/go-pttbbs/types"
)

// scratch world shared by the C07 and C08 drivers: one caller, one "other" user, one target board
type world struct {
	env       *bbsEnv
	uid       ptttype.UID
	userID    ptttype.UserID_t
	baseUser  ptttype.UserecRaw
	otherUID  ptttype.UID
	otherID   ptttype.UserID_t
	bid       ptttype.Bid
	boardID   ptttype.BoardID_t
	baseBoard ptttype.BoardHeaderRaw
	user      ptttype.UserecRaw // the caller's record as planted for the current row
	board     ptttype.BoardHeaderRaw
}

func toUserID(s string) (id ptttype.UserID_t) { copy(id[:], s); return id }
func toBoardID(s string) (id ptttype.BoardID_t) {
	copy(id[:], s)
	return id
}

func newWorld(user, other, board string) *world {
	w := &world{env: newBBSEnv("ptt", true)}
	w.userID = toUserID(user)
	uid, u, err := cmbbs.PasswdLoadUser(&w.userID)
	must(err)
	w.uid, w.baseUser = uid, *u
	w.otherID = toUserID(other)
	ouid, _, err := cmbbs.PasswdLoadUser(&w.otherID)
	must(err)
	w.otherUID = ouid
	w.boardID = toBoardID(board)
	bid, err := cache.GetBid(&w.boardID)
	must(err)
	w.bid = bid
	w.baseBoard = cache.Shm.Shm.BCache[bid-1]
	return w
}

// plantUser writes the caller's record for this row into .PASSWDS and keeps the in-memory copy.
func (w *world) plantUser(level uint32, over18 bool, mod func(u *ptttype.UserecRaw)) {
	u := w.baseUser
	u.UserLevel = ptttype.PERM(level)
	u.Over18 = over18
	if mod != nil {
		mod(&u)
	}
	w.user = u
	must(cmbbs.PasswdUpdate(w.uid, &u))
}

// plantBoard writes the board header for this row into the board cache (what every reader consults),
// the moderator cache and the friend file (forcing a reload of the friend list on next use).
func (w *world) plantBoard(attr, level uint32, inBM, friend, namedBM bool, mod func(b *ptttype.BoardHeaderRaw)) {
	b := w.baseBoard
	b.BrdAttr = ptttype.BrdAttr(attr)
	b.Level = ptttype.PERM(level)
	b.BM = ptttype.BM_t{}
	if namedBM {
		copy(b.BM[:], types.CstrToString(w.otherID[:])+"/"+types.CstrToString(w.userID[:]))
	} else {
		copy(b.BM[:], types.CstrToString(w.otherID[:]))
	}
	if mod != nil {
		mod(&b)
	}
	w.board = b
	cache.Shm.Shm.BCache[w.bid-1] = b
	bm := [ptttype.MAX_BMs]ptttype.UID{w.otherUID, -1, -1, -1}
	if inBM {
		bm[1] = w.uid
	}
	cache.Shm.Shm.BMCache[w.bid-1] = bm
	vis := types.CstrToString(w.otherID[:]) + " friend\n"
	if friend {
		vis += types.CstrToString(w.userID[:]) + " me\n"
	}
	dir := filepath.Join(w.env.home, "boards", string(w.boardID[0]), types.CstrToString(w.boardID[:]))
	must(os.WriteFile(filepath.Join(dir, "visable"), []byte(vis), 0o644))
	cache.Shm.Shm.Hbfl[w.bid-1][0] = 0
}

// restore puts the planted header and user record back (a listing may write into the header, a
// guard evaluation may write the caller's level bits).
func (w *world) restore() {
	cache.Shm.Shm.BCache[w.bid-1] = w.board
	must(cmbbs.PasswdUpdate(w.uid, &w.user))
}

func (w *world) close() { w.env.close() }

// ---------------------------------------------------------------------------------------------

var c07w *world

const (
	c07Article  = "M.1607202239.A.30D"
	c07ArtTime  = 1607202239
	c07ArtBytes = 196
)

func articleCode(err error, good bool, hasData bool) int64 {
	switch {
	case err == nil && good:
		return 1
	case err == ptt.ErrNotPermitted && !hasData:
		return 0
	case err == nil:
		return 5 // answered, but not with the board's data
	case err == ptt.ErrNotPermitted:
		return 6 // refused and leaked
	}
	return 7
}

func listingCode(bid ptttype.Bid, l []*ptttype.BoardSummaryRaw, err error) []string {
	if err != nil {
		return []string{"7", "-1"}
	}
	for _, s := range l {
		if s != nil && s.Bid == bid {
			if s.Title != nil {
				return []string{"1", oi(int64(s.BrdAttr))}
			}
			return []string{"2", oi(int64(s.BrdAttr))}
		}
	}
	return []string{"0", "-1"}
}

func c07Row(args [][]string) (level uint32, o18, inbm, fr, nbm bool, battr, blevel uint32) {
	u, b := args[1], args[2]
	return uint32(au(u[0])), ai(u[1]) != 0, ai(u[2]) != 0, ai(u[3]) != 0, ai(u[4]) != 0, uint32(au(b[0])), uint32(au(b[1]))
}

func c07Run(args [][]string) []string {
	w := c07w
	op := ai(args[0][0])
	if op == 8 {
		return c07RunFixture()
	}
	// ops 9 and 10 name the build configuration (0 default, 1 -tags docker) they are meant for; a driver compiled
	// with another configuration refuses them, so that an answer can only come from the build the check asked.
	if op == 9 || op == 10 {
		if len(args[0]) != 2 || ai(args[0][1]) != c07BuildCfg {
			return []string{"9"}
		}
		if op == 10 { // the compile-time options of this build that decide what a summary discloses
			return ok(obool(ptttype.USE_REAL_DESC_FOR_HIDDEN_BOARD_IN_MYFAV), oi(int64(ptttype.MAX_BOARD)))
		}
		op = 1 // op 9: the row through every entry point, as op 1, in this build
	}
	if op == 11 { // a history of boards (c07life.go)
		return c07RunLife(w, args[1:])
	}
	if op != 1 && op != 3 && op != 4 && op != 5 && op != 6 && op != 7 {
		return []string{"9"}
	}
	if (op == 5 || op == 6) && len(args[0]) != 2 {
		return []string{"9"}
	}
	level, o18, inbm, fr, nbm, battr, blevel := c07Row(args)
	w.plantUser(level, o18, nil)
	w.plantBoard(battr, blevel, inbm, fr, nbm, nil)
	if op == 5 {
		return c07RunContent(w, int(ai(args[0][1])))
	}
	c07Content.set(w, c07FullContent) // every other op runs on the fixture's full content
	c07Content.counters(w)
	if op == 6 {
		return c07RunListing(w, int(ai(args[0][1])))
	}
	if op == 7 {
		return c07RunClass(w, args)
	}
	fn := &ptttype.Filename_t{}
	copy(fn[:], c07Article)
	boardID := &w.boardID
	user := func() *ptttype.UserecRaw { w.restore(); u := w.user; return &u }

	switch op {
	case 3: // inconsistent (bid, name) pair: permission of fixture board 1 (SYSOP), files of the target board
		valid, err := ptt.IsBoardValidUser(user(), w.uid, boardID, w.bid)
		if err != nil {
			return errs(7)
		}
		otherBid := ptttype.Bid(1)
		content, _, _, err := ptt.ReadPost(user(), w.uid, boardID, otherBid, fn, 0, false)
		c1 := articleCode(err, len(content) == c07ArtBytes, content != nil)
		w.restore()
		bb := bbs.BBoardID("1_" + types.CstrToString(w.boardID[:]))
		content, _, _, err = bbs.GetArticle(bbs.UUserID(types.CstrToString(w.userID[:])), bb, bbs.ToArticleID(fn), 0, false)
		c2 := articleCode(err, len(content) == c07ArtBytes, content != nil)
		return ok(obool(valid), oi(c1), oi(c2))
	case 4: // exported helper without a caller argument
		valid, err := ptt.IsBoardValidUser(user(), w.uid, boardID, w.bid)
		if err != nil {
			return errs(7)
		}
		sums, _, _, err := ptt.LoadGeneralArticlesSameCreateTime(boardID, w.bid, 1, 0, c07ArtTime)
		return ok(obool(valid), oi(articleCode(err, len(sums) >= 1, sums != nil)))
	}

	out := []string{"0"}
	// the rule itself and groupOp, through the export hooks
	st := ptt.VerifBoardPermStat(user(), w.uid, &cache.Shm.Shm.BCache[w.bid-1], w.bid)
	gop := ptt.VerifGroupOp(user(), w.uid, &cache.Shm.Shm.BCache[w.bid-1])
	out = append(out, oi(int64(st)), obool(gop))

	// ---- article entry points (ptt)
	valid, err := ptt.IsBoardValidUser(user(), w.uid, boardID, w.bid)
	if err != nil {
		out = append(out, "7")
	} else {
		out = append(out, obool(valid))
	}
	sums, _, _, _, err := ptt.LoadGeneralArticles(user(), w.uid, boardID, w.bid, 0, 10, true)
	out = append(out, oi(articleCode(err, len(sums) == 2, sums != nil)))
	sums, err = ptt.LoadBottomArticles(user(), w.uid, boardID, w.bid)
	out = append(out, oi(articleCode(err, len(sums) == 1, sums != nil)))
	idx, err := ptt.FindArticleStartIdx(user(), w.uid, boardID, w.bid, c07ArtTime, fn, true)
	out = append(out, oi(articleCode(err, idx >= 1, idx >= 1)))
	content, _, _, err := ptt.ReadPost(user(), w.uid, boardID, w.bid, fn, 0, false)
	out = append(out, oi(articleCode(err, len(content) == c07ArtBytes, content != nil)))
	content, _, _, err = ptt.ReadPostTemplate(user(), w.uid, boardID, w.bid, 1, 0, false)
	out = append(out, oi(articleCode(err, len(content) > 0, content != nil)))

	// ---- listings (ptt)
	l, _, err := ptt.LoadGeneralBoards(user(), w.uid, 1, 200, nil, nil, true, ptttype.BSORT_BY_NAME)
	out = append(out, listingCode(w.bid, l, err)...)
	kw := []byte("whoa")
	start, err := cache.FindBoardAutoCompleteStartIdx(kw, true)
	if err != nil {
		out = append(out, "7", "-1")
	} else {
		l, _, err = ptt.LoadAutoCompleteBoards(user(), w.uid, start, 200, kw, true)
		out = append(out, listingCode(w.bid, l, err)...)
	}
	l, err = ptt.LoadBoardsByBids(user(), w.uid, []ptttype.Bid{3, w.bid, 8})
	out = append(out, listingCode(w.bid, l, err)...)
	cache.Shm.Shm.NHOTs = 2
	cache.Shm.Shm.HBcache[0] = 7 // Note (bid 8)
	cache.Shm.Shm.HBcache[1] = ptttype.BidInStore(w.bid - 1)
	l, err = ptt.LoadHotBoards(user(), w.uid)
	out = append(out, listingCode(w.bid, l, err)...)
	s, err := ptt.LoadBoardSummary(user(), w.uid, w.bid)
	if err != nil || s == nil {
		out = append(out, "7", "-1")
	} else {
		out = append(out, listingCode(w.bid, []*ptttype.BoardSummaryRaw{s}, nil)...)
	}

	// ---- bbs wrappers (they load the caller from .PASSWDS by name)
	uu := bbs.UUserID(types.CstrToString(w.userID[:]))
	bb := bbs.ToBBoardID(w.bid, boardID)
	w.restore()
	valid, err = bbs.IsBoardValidUser(uu, bb)
	if err != nil {
		out = append(out, "7")
	} else {
		out = append(out, obool(valid))
	}
	w.restore()
	bs, _, _, _, _, err := bbs.LoadGeneralArticles(uu, bb, "", 10, true)
	out = append(out, oi(articleCode(err, len(bs) == 2, bs != nil)))
	w.restore()
	bs, err = bbs.LoadBottomArticles(uu, bb)
	out = append(out, oi(articleCode(err, len(bs) == 1, bs != nil)))
	w.restore()
	content, _, _, err = bbs.GetArticle(uu, bb, bbs.ToArticleID(fn), 0, false)
	out = append(out, oi(articleCode(err, len(content) == c07ArtBytes, content != nil)))
	w.restore()
	out = append(out, c07BbsSummary(uu, bb)...)
	return out
}

// ---------------------------------------------------------------------------------------------
// op 5: the article entry points on degenerate board content.

const (
	c07HasIndex    = 1  // .DIR with the fixture's two records
	c07HasPinned   = 2  // .DIR.bottom with the fixture's one record
	c07HasBody     = 4  // the article file
	c07HasTemplate = 8  // postsample.0
	c07Loaded      = 16 // NBottom of the segment loaded from .DIR.bottom (else 0: not loaded yet)
	c07FullContent = 31
)

// c07ContentState keeps the original bytes of the four files of the target board and what is on disk now.
type c07ContentState struct {
	ready   bool
	dir     string
	names   [4]string
	orig    [4][]byte
	current int // file bits on disk, -1 unknown
	bits    int
	total   int32
	nbottom uint8
	lastPos types.Time4
}

var c07Content = &c07ContentState{current: -1}

func (cs *c07ContentState) init(w *world) {
	if cs.ready {
		return
	}
	cs.dir = filepath.Join(w.env.home, "boards", string(w.boardID[0]), types.CstrToString(w.boardID[:]))
	cs.names = [4]string{".DIR", ".DIR.bottom", c07Article, "postsample.0"}
	for k, n := range cs.names {
		b, err := os.ReadFile(filepath.Join(cs.dir, n))
		must(err)
		cs.orig[k] = b
	}
	cs.current = c07FullContent &^ c07Loaded
	cs.bits = -1
	cs.ready = true
}

// set puts the files of the content on disk (only when they differ from what is there) and lets the code's own
// loaders (SetBTotal / SetBottomTotal) compute the counters of that content; counters() replays them.
func (cs *c07ContentState) set(w *world, bits int) {
	cs.init(w)
	files := bits &^ c07Loaded
	if files != cs.current {
		for k, n := range cs.names {
			p := filepath.Join(cs.dir, n)
			if files&(1<<uint(k)) != 0 {
				must(os.WriteFile(p, cs.orig[k], 0o644))
			} else if err := os.Remove(p); err != nil && !os.IsNotExist(err) {
				must(err)
			}
		}
		cs.current = files
		cs.bits = -1
	}
	if bits == cs.bits {
		return
	}
	cs.bits = bits
	k := w.bid - 1
	cache.Shm.Shm.Total[k] = 0
	cache.Shm.Shm.LastPostTime[k] = 0
	cache.Shm.Shm.NBottom[k] = 0
	must(cache.SetBTotal(w.bid))
	if bits&c07Loaded != 0 {
		must(cache.SetBottomTotal(w.bid))
	}
	cs.total, cs.lastPos, cs.nbottom = cache.Shm.Shm.Total[k], cache.Shm.Shm.LastPostTime[k], cache.Shm.Shm.NBottom[k]
}

// counters writes the counters of the current content back (a reader may have loaded them as a side effect).
func (cs *c07ContentState) counters(w *world) {
	k := w.bid - 1
	cache.Shm.Shm.Total[k], cache.Shm.Shm.LastPostTime[k], cache.Shm.Shm.NBottom[k] = cs.total, cs.lastPos, cs.nbottom
}

func b2n(b bool) int {
	if b {
		return 1
	}
	return 0
}

// errClass: the verdict is read from the error value alone.
func errClass(err error) int64 {
	switch {
	case err == nil:
		return 1
	case err == ptt.ErrNotPermitted:
		return 0
	case err == ptt.ErrInvalidParams || err == bbs.ErrInvalidParams:
		return 11
	case err == ptt.ErrNoRecord:
		return 12
	case os.IsNotExist(err):
		return 13
	}
	return 17
}

func c07RunContent(w *world, bits int) []string {
	if bits < 0 || bits > c07FullContent {
		return []string{"9"}
	}
	cs := c07Content
	cs.set(w, bits)
	fn := &ptttype.Filename_t{}
	copy(fn[:], c07Article)
	boardID := &w.boardID
	user := func() *ptttype.UserecRaw { w.restore(); cs.counters(w); u := w.user; return &u }
	pair := func(err error, n int) []string {
		if err != nil && n < 0 {
			n = 0 // the -1 an index search returns next to its error is not a payload
		}
		return []string{oi(errClass(err)), oi(int64(n))}
	}
	out := []string{"0"}

	valid, err := ptt.IsBoardValidUser(user(), w.uid, boardID, w.bid)
	out = append(out, pair(err, b2n(valid))...)
	sums, _, next, _, err := ptt.LoadGeneralArticles(user(), w.uid, boardID, w.bid, 0, 10, true)
	n := len(sums)
	if next != nil {
		n++
	}
	out = append(out, pair(err, n)...)
	sums, err = ptt.LoadBottomArticles(user(), w.uid, boardID, w.bid)
	out = append(out, pair(err, len(sums))...)
	idx, err := ptt.FindArticleStartIdx(user(), w.uid, boardID, w.bid, c07ArtTime, fn, true)
	out = append(out, pair(err, int(idx))...)
	content, _, _, err := ptt.ReadPost(user(), w.uid, boardID, w.bid, fn, 0, false)
	out = append(out, pair(err, len(content))...)
	content, _, _, err = ptt.ReadPostTemplate(user(), w.uid, boardID, w.bid, 1, 0, false)
	out = append(out, pair(err, len(content))...)

	uu := bbs.UUserID(types.CstrToString(w.userID[:]))
	bb := bbs.ToBBoardID(w.bid, boardID)
	user()
	valid, err = bbs.IsBoardValidUser(uu, bb)
	out = append(out, pair(err, b2n(valid))...)
	user()
	bs, nextIdx, _, _, _, err := bbs.LoadGeneralArticles(uu, bb, "", 10, true)
	n = len(bs)
	if nextIdx != "" {
		n++
	}
	out = append(out, pair(err, n)...)
	user()
	bs, err = bbs.LoadBottomArticles(uu, bb)
	out = append(out, pair(err, len(bs))...)
	user()
	content, _, _, err = bbs.GetArticle(uu, bb, bbs.ToArticleID(fn), 0, false)
	out = append(out, pair(err, len(content))...)
	w.restore()
	return out
}

// ---------------------------------------------------------------------------------------------
// op 6: the listings where the surrounding list is degenerate. variant 0: nothing to list; variant 1: the target
// board is the only candidate. Each listing answers (code, attr, length of the list).

func listingCode3(bid ptttype.Bid, l []*ptttype.BoardSummaryRaw, err error) []string {
	return append(listingCode(bid, l, err), oi(int64(len(l))))
}

func c07RunListing(w *world, variant int) []string {
	if variant != 0 && variant != 1 {
		return []string{"9"}
	}
	user := func() *ptttype.UserecRaw { w.restore(); u := w.user; return &u }
	name := types.CstrToString(w.boardID[:])
	kw := []byte("zzzzqq") // no board of the fixture carries it, neither as prefix nor inside name / title
	bids := []ptttype.Bid{}
	cache.Shm.Shm.NHOTs = 0
	if variant == 1 {
		kw = []byte(name)
		bids = []ptttype.Bid{w.bid}
		cache.Shm.Shm.NHOTs = 1
		cache.Shm.Shm.HBcache[0] = ptttype.BidInStore(w.bid - 1)
	}
	out := []string{"0"}
	l, next, err := ptt.LoadGeneralBoards(user(), w.uid, 1, 200, nil, kw, true, ptttype.BSORT_BY_NAME)
	if next != nil {
		l = append(l, next)
	}
	out = append(out, listingCode3(w.bid, l, err)...)
	start, err := cache.FindBoardAutoCompleteStartIdx(kw, true)
	switch {
	case err != nil:
		out = append(out, "7", "-1", "0")
	case start < 0: // the callers answer the empty list without asking ptt
		out = append(out, "0", "-1", "0")
	default:
		l, next, err = ptt.LoadAutoCompleteBoards(user(), w.uid, start, 200, kw, true)
		if next != nil {
			l = append(l, next)
		}
		out = append(out, listingCode3(w.bid, l, err)...)
	}
	l, err = ptt.LoadBoardsByBids(user(), w.uid, bids)
	out = append(out, listingCode3(w.bid, l, err)...)
	l, err = ptt.LoadHotBoards(user(), w.uid)
	out = append(out, listingCode3(w.bid, l, err)...)
	// the class listing of a class without children (no board of the fixture has the target as its group)
	out = append(out, c07EmptyClass(w, user())...)
	w.restore()
	return out
}

func c07EmptyClass(w *world, u *ptttype.UserecRaw) (res []string) {
	defer func() {
		if r := recover(); r != nil {
			res = []string{"8", "-1", "0"}
		}
	}()
	l, err := ptt.LoadClassBoards(u, w.uid, w.bid, ptttype.BSORT_BY_NAME)
	return listingCode3(w.bid, l, err)
}

// bbs.LoadBoardSummary: 1 title present, 2 answered without title, 8 panicked
func c07BbsSummary(uu bbs.UUserID, bb bbs.BBoardID) (res []string) {
	defer func() {
		if r := recover(); r != nil {
			res = []string{"8", "-1"}
		}
	}()
	s, err := bbs.LoadBoardSummary(uu, bb)
	if err != nil || s == nil {
		return []string{"7", "-1"}
	}
	if len(s.RealTitle) > 0 || len(s.BoardClass) > 0 {
		return []string{"1", oi(int64(s.BrdAttr))}
	}
	return []string{"2", oi(int64(s.BrdAttr))}
}

func init() {
	register("C07", &propDriver{
		setup:    func() { c07w = newWorld("CodingMan", "Kahou", "WhoAmI") },
		teardown: func() { c07w.close() },
		run:      c07Run,
	})
}
