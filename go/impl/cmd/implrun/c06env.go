package main

// C06, environment of a lookup: (a) the path layout of the index file (symbolic links, hard links) and
// (b) other operations of the SAME process that are inside the same index while the lookup runs
// (goroutines parked at the schedule points of cmsys: append.locked, flock.tabled, find.opened).
// Nothing here depends on timing: the other operation is parked at a schedule point before the lookup starts and is
// released after the lookup has returned; deadlines are only there to turn a deadlock into status 2.

import (
	"fmt"
	"os"
	"path/filepath"
	"sync"
	"time"

	"github.com/Ptt-official-app/go-pttbbs/cmsys"
	"github.com/Ptt-official-app/go-pttbbs/ptttype"
	"github.com/Ptt-official-app/go-pttbbs/types"
)

// c06Place makes fn an index with the given content, reached through the given layout (see c06.go: write).
func c06Place(fn string, other string, layout int64, content []byte) {
	for _, p := range []string{fn, fn + ".vol", fn + ".lnk", other} {
		if err := os.Remove(p); err != nil && !os.IsNotExist(err) {
			panic(err)
		}
	}
	base := filepath.Base(fn)
	switch layout {
	case 0:
	case 1:
		must(os.Symlink(base+".vol", fn))
	case 2:
		must(os.Symlink(other, fn))
	case 3:
		must(os.Symlink(base+".vol", fn+".lnk"))
		must(os.Symlink(base+".lnk", fn))
	case 4:
		must(os.WriteFile(fn+".vol", nil, 0o644))
		must(os.Link(fn+".vol", fn))
	default:
		panic("badcase:layout")
	}
	must(os.WriteFile(fn, content, 0o644)) // follows the links
	if layout != 0 {
		st, err := os.Stat(fn)
		must(err)
		if st.Size() != int64(len(content)) {
			panic("badcase:layout not established")
		}
		lst, err := os.Lstat(fn)
		must(err)
		if (layout != 4) != (lst.Mode()&os.ModeSymlink != 0) {
			panic("badcase:layout not established")
		}
	}
}

var c06Park struct {
	mu      sync.Mutex
	armed   bool
	name    string
	file    string
	reached chan struct{}
	release chan struct{}
}

func c06Hook(name string, data interface{}) {
	p := &c06Park
	p.mu.Lock()
	hit := p.armed && name == p.name
	if hit && name != "append.locked" {
		fn, ok := data.(string)
		hit = ok && fn == p.file
	}
	var reached, release chan struct{}
	if hit {
		p.armed = false
		reached, release = p.reached, p.release
	}
	p.mu.Unlock()
	if hit {
		close(reached)
		<-release
	}
}

const c06Deadline = 12 * time.Second // only a deadlocked lookup ever waits this long

// c06Overlap runs the lookup `op` while another operation of this process is inside the index fn (n records):
// mode 1: cmsys.AppendRecord parked after it has taken the index lock, before it has written anything;
// mode 2: cmsys.DeleteRecord parked after it has registered the lock, before it has written anything;
// mode 3: another cmsys.FindRecordStartIdx parked after it has opened the index;
// mode 4: four goroutines run the same lookup 25 times each, freely scheduled; every answer must be the same.
// In modes 1-3 the file is unchanged while the lookup runs. Result: the lookup's own result line
// (status 2: the lookup did not return while the other operation was parked; 3 93: the other operation could not start;
// 3 94 in mode 4: two answers differ).
func c06Overlap(mode int64, fn string, n int, op func() []string) []string {
	cmsys.VerifPointHook = c06Hook
	if mode == 4 {
		first := op()
		var wg sync.WaitGroup
		outs := make([][]string, 4)
		pans := make([]interface{}, 4)
		for g := 0; g < 4; g++ {
			wg.Add(1)
			go func(g int) {
				defer wg.Done()
				defer func() { pans[g] = recover() }()
				for i := 0; i < 25; i++ {
					o := op()
					if fmt.Sprint(o) != fmt.Sprint(first) {
						outs[g] = o
						return
					}
				}
			}(g)
		}
		wg.Wait()
		for g := 0; g < 4; g++ {
			if pans[g] != nil {
				panic(pans[g])
			}
			if outs[g] != nil {
				if outs[g][0] == "3" || first[0] != "0" {
					return outs[g]
				}
				return errs(94)
			}
		}
		return first
	}
	p := &c06Park
	p.mu.Lock()
	p.armed, p.file = true, fn
	p.reached, p.release = make(chan struct{}), make(chan struct{})
	switch mode {
	case 1:
		p.name = "append.locked"
	case 2:
		p.name = "flock.tabled"
	case 3:
		p.name = "find.opened"
	default:
		p.mu.Unlock()
		return []string{"9"}
	}
	reached, release := p.reached, p.release
	p.mu.Unlock()
	otherDone := make(chan struct{})
	go func() {
		defer close(otherDone)
		defer func() { _ = recover() }()
		switch mode {
		case 1:
			_, _ = cmsys.AppendRecord(fn, c06Header(c06Entry{2000000000, 1}), ptttype.FILE_HEADER_RAW_SZ)
		case 2:
			_ = cmsys.DeleteRecord(fn, ptttype.SortIdxInStore(n), ptttype.FILE_HEADER_RAW_SZ)
		case 3:
			_, _ = cmsys.FindRecordStartIdx(fn, n, types.Time4(0), nil, false)
		}
	}()
	select {
	case <-reached:
	case <-otherDone:
		// the other operation ended without reaching its schedule point (mode 3 on a missing file)
		p.mu.Lock()
		p.armed = false
		p.mu.Unlock()
		return errs(93)
	case <-time.After(c06Deadline):
		p.mu.Lock()
		p.armed = false
		p.mu.Unlock()
		return errs(93)
	}
	type res struct {
		out []string
		pan interface{}
	}
	rc := make(chan res, 1)
	go func() {
		var r res
		defer func() {
			if x := recover(); x != nil {
				r.pan = x
			}
			rc <- r
		}()
		r.out = op()
	}()
	var r res
	hung := false
	select {
	case r = <-rc:
	case <-time.After(c06Deadline):
		hung = true
	}
	close(release)
	select {
	case <-otherDone:
	case <-time.After(c06Deadline):
	}
	if hung {
		select { // let the lookup finish now that the other operation is gone, so that it does not run into the next case
		case <-rc:
		case <-time.After(c06Deadline):
		}
		return []string{"2"}
	}
	if r.pan != nil {
		panic(r.pan)
	}
	return r.out
}
