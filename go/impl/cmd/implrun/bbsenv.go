package main

// Shared scratch BBS environment for properties that need shared memory, the passwd semaphore,
// .PASSWDS/.BRD and the board/home trees: a private temp directory laid out like a package test
// directory (cwd/testcase = BBSHOME, cwd/types -> /repo/types), private SysV keys derived from
// the pid, fixtures copied from /repo/<pkg>/testcase. Everything is removed in close().

import (
	"fmt"
	"io"
	"os"
	"path/filepath"
	"strings"

	"github.com/Ptt-official-app/go-pttbbs/cache"
	"github.com/Ptt-official-app/go-pttbbs/cmbbs"
	"github.com/Ptt-official-app/go-pttbbs/ptttype"
	"github.com/Ptt-official-app/go-pttbbs/types"
	"github.com/sirupsen/logrus"
)

type bbsEnv struct {
	root string // cwd
	home string // root/testcase
	repo string
}

func repoRoot() string {
	if r := os.Getenv("VERIF_REPO"); r != "" {
		return r
	}
	return "/repo"
}

func copyFile(src, dst string) error {
	in, err := os.Open(src)
	if err != nil {
		return err
	}
	defer in.Close()
	st, _ := in.Stat()
	out, err := os.OpenFile(dst, os.O_CREATE|os.O_TRUNC|os.O_WRONLY, st.Mode().Perm()|0o600)
	if err != nil {
		return err
	}
	defer out.Close()
	_, err = io.Copy(out, in)
	return err
}

func copyTree(src, dst string) error {
	return filepath.Walk(src, func(p string, info os.FileInfo, err error) error {
		if err != nil {
			return err
		}
		rel, _ := filepath.Rel(src, p)
		target := filepath.Join(dst, rel)
		if info.IsDir() {
			return os.MkdirAll(target, 0o755)
		}
		return copyFile(p, target)
	})
}

// newBBSEnv builds the scratch tree from /repo/<fixture>/testcase (the "1"-suffixed fixtures become
// the live files) and initialises shared memory, the user hash and the passwd semaphore the way the
// package tests do. loadBoards additionally runs cache.ReloadBCache().
func newBBSEnv(fixture string, loadBoards bool) *bbsEnv {
	logrus.SetLevel(logrus.PanicLevel)
	logrus.SetOutput(io.Discard)
	e := &bbsEnv{repo: repoRoot()}
	root, err := os.MkdirTemp("", "verifbbs")
	if err != nil {
		panic(err)
	}
	e.root = root
	e.home = filepath.Join(root, "testcase")
	must(os.MkdirAll(e.home, 0o755))
	must(os.Symlink(filepath.Join(e.repo, "types"), filepath.Join(root, "types")))
	e.loadFixture(fixture)
	must(os.Chdir(root))

	pid := os.Getpid()
	cache.TestShmKey = types.Key_t(0x56000000 + pid%0xffffff)
	cmbbs.TestPASSWDSEM_KEY = 0x57000000 + pid%0xffffff
	types.SetIsTest("main")
	ptttype.SetIsTest()
	cache.SetIsTest()
	cmbbs.SetIsTest()
	must(cache.NewSHM(cache.TestShmKey, ptttype.USE_HUGETLB, true))
	cache.Shm.Reset()
	_ = cache.LoadUHash()
	_ = cmbbs.PasswdInit()
	if loadBoards {
		cache.ReloadBCache()
	}
	return e
}

// loadFixture (re)copies the fixture files into the scratch BBSHOME.
func (e *bbsEnv) loadFixture(fixture string) {
	src := filepath.Join(e.repo, fixture, "testcase")
	entries, err := os.ReadDir(src)
	if err != nil {
		panic(fmt.Sprintf("fixture %s: %v", src, err))
	}
	for _, en := range entries {
		name := en.Name()
		live := name
		if strings.HasSuffix(name, "1") && (strings.HasPrefix(name, ".") || name == "boards1" || name == "home1") {
			live = strings.TrimSuffix(name, "1")
		} else if name == ".PASSWDS" || name == ".BRD" || name == "boards" || name == "home" {
			continue // leftovers of the repository's own tests
		}
		dst := filepath.Join(e.home, live)
		os.RemoveAll(dst)
		if en.IsDir() {
			must(copyTree(filepath.Join(src, name), dst))
		} else {
			must(copyFile(filepath.Join(src, name), dst))
		}
	}
	for _, d := range []string{"boards", "home"} {
		os.MkdirAll(filepath.Join(e.home, d), 0o755)
		for c := 'A'; c <= 'Z'; c++ {
			os.MkdirAll(filepath.Join(e.home, d, string(c)), 0o755)
			os.MkdirAll(filepath.Join(e.home, d, strings.ToLower(string(c))), 0o755)
		}
	}
}

// reload resets shared memory and reloads it from the current files.
func (e *bbsEnv) reload(loadBoards bool) {
	cache.Shm.Reset()
	_ = cache.LoadUHash()
	if loadBoards {
		cache.ReloadBCache()
	}
}

func (e *bbsEnv) close() {
	_ = cmbbs.PasswdDestroy()
	_ = cache.CloseSHM()
	os.Chdir("/")
	os.RemoveAll(e.root)
}

func must(err error) {
	if err != nil {
		panic(err)
	}
}
