package main

// C15 on production-size tables. The same controller / workers / schedule points as c15.go, but the account table is
// given sparsely, so that the driver can be built with `-tags "verif docker"` (MAX_USERS = 2 000 000, the configuration
// the site runs with; the bucket table of the id index keeps 1 << HASH_BITS = 65 536 entries, so slot numbers exceed
// bucket numbers): .PASSWDS holds nrec records, slots 1..nfill hold generated accounts ("f0000001", ...: the free slots
// the loader chains are the first empty records, i.e. they start above nfill), further accounts are planted in chosen
// slots (e.g. above 65 536, in the bucket of the id that is going to be registered). The final SHM index and .PASSWDS
// are reported as differences against that initial table, and every account of the final index is looked up through
// cache.DoSearchUserRaw (the existence check of ptt.SetupNewUser) — an account the lookup does not find is reported.
// The file also compiles in the default build (MAX_USERS = 50), where the same cases run on the small tables.

import (
	"encoding/binary"
	"fmt"
	"os"
	"path/filepath"
	"time"
	"unsafe"

	"github.com/Ptt-official-app/go-pttbbs/cache"
	"github.com/Ptt-official-app/go-pttbbs/cmsys"
	"github.com/Ptt-official-app/go-pttbbs/ptttype"
	"github.com/Ptt-official-app/go-pttbbs/types"
)

type c15Planted struct {
	slot int // uid, 1-based
	id   []byte
}

func c15Filler(uid int) []byte { return []byte(fmt.Sprintf("f%07d", uid)) }

// slot len b1..bn slot len b1..bn ...
func c15DecPlanted(toks []string) []c15Planted {
	out := []c15Planted{}
	for i := 0; i < len(toks); {
		if i+2 > len(toks) {
			panic("badcase:planted")
		}
		slot, n := int(ai(toks[i])), int(ai(toks[i+1]))
		if n < 0 || i+2+n > len(toks) {
			panic("badcase:planted")
		}
		out = append(out, c15Planted{slot, ab(toks[i+2 : i+2+n])})
		i += 2 + n
	}
	return out
}

// what slot uid holds before anything runs
func c15BigInitial(nfill int, planted []c15Planted) func(uid int) []byte {
	m := map[int][]byte{}
	for _, p := range planted {
		m[p.slot] = p.id
	}
	return func(uid int) []byte {
		if id, ok := m[uid]; ok {
			return id
		}
		if uid <= nfill {
			return c15Filler(uid)
		}
		return nil
	}
}

func c15BigReset(e *bbsEnv, nrec, nfill int, planted []c15Planted) {
	sz := int(ptttype.USEREC_RAW_SZ)
	buf := make([]byte, sz*nrec)
	off := int(unsafe.Offsetof(ptttype.USEREC_RAW.UserID))
	init := c15BigInitial(nfill, planted)
	put := func(uid int) {
		id := init(uid)
		if len(id) == 0 || uid < 1 || uid > nrec {
			return
		}
		rec := buf[(uid-1)*sz : uid*sz]
		binary.LittleEndian.PutUint32(rec, uint32(ptttype.PASSWD_VERSION))
		copy(rec[off:off+ptttype.IDLEN], id)
	}
	for uid := 1; uid <= nfill; uid++ {
		put(uid)
	}
	for _, p := range planted {
		put(p.slot)
	}
	must(os.WriteFile(filepath.Join(e.home, ".PASSWDS"), buf, 0o600))
	must(os.WriteFile(filepath.Join(e.home, ".fresh"), []byte(time.Now().String()), 0o600))
	e.reload(false)
}

func c15EncSparse(uid int, id []byte) []string {
	return append([]string{fmt.Sprint(uid), fmt.Sprint(len(id))}, ob(id)...)
}

// index differences -1 .PASSWDS differences -1 MAX_USERS, number of accounts of the final index that
// cache.DoSearchUserRaw does not find (answers 0 or a slot holding another id), the first of them (uid, answer)
func c15BigReport(e *bbsEnv, nfill int, planted []c15Planted) []string {
	init := c15BigInitial(nfill, planted)
	out := []string{}
	for k := 0; k < ptttype.MAX_USERS; k++ {
		id := c15Cstr(cache.Shm.Shm.Userid[k][:])
		if string(id) != string(init(k+1)) {
			out = append(out, c15EncSparse(k+1, id)...)
		}
	}
	out = append(out, "-1")
	fb, err := os.ReadFile(filepath.Join(e.home, ".PASSWDS"))
	must(err)
	sz := int(ptttype.USEREC_RAW_SZ)
	off := int(unsafe.Offsetof(ptttype.USEREC_RAW.UserID))
	last := len(fb) / sz // records beyond the file are empty: only generated / planted accounts can be missing there
	if nfill > last {
		last = nfill
	}
	for _, p := range planted {
		if p.slot > last {
			last = p.slot
		}
	}
	for k := 0; k < last && k < ptttype.MAX_USERS; k++ {
		id := []byte{}
		if (k+1)*sz <= len(fb) {
			id = c15Cstr(fb[k*sz+off : k*sz+off+ptttype.IDLEN+1])
		}
		if string(id) != string(init(k+1)) {
			out = append(out, c15EncSparse(k+1, id)...)
		}
	}
	out = append(out, "-1", fmt.Sprint(ptttype.MAX_USERS))
	nbad, first := 0, []string{}
	for k := 0; k < ptttype.MAX_USERS; k++ {
		id := &cache.Shm.Shm.Userid[k]
		if id[0] == 0 {
			continue
		}
		uid, _ := cache.DoSearchUserRaw(id, nil)
		if uid < 1 || int(uid) > ptttype.MAX_USERS || types.Cstrcasecmp(cache.Shm.Shm.Userid[uid-1][:], id[:]) != 0 {
			nbad++
			if len(first) < 16 {
				first = append(first, fmt.Sprint(k+1), fmt.Sprint(int(uid)))
			}
		}
	}
	out = append(out, fmt.Sprint(nbad))
	return append(out, first...)
}

// case: 4|mode|nrec nfill|planted accounts (slot len bytes)*|procs|ids|schedule|procs|ids|schedule|...
// result: as for op 3 up to the lookups, then the report of c15BigReport
func c15RunBig(args [][]string) []string {
	if len(args) < 7 || (len(args)-4)%3 != 0 || len(args[1]) != 1 || len(args[2]) != 2 {
		return []string{"9"}
	}
	nrec, nfill := int(ai(args[2][0])), int(ai(args[2][1]))
	if nrec < 1 || nrec > ptttype.MAX_USERS || nfill < 0 || nfill > nrec {
		return []string{"9"}
	}
	planted := c15DecPlanted(args[3])
	for _, p := range planted {
		if p.slot < 1 || p.slot > nrec {
			return []string{"9"}
		}
	}
	phases := []*c15Phase{}
	for i := 4; i < len(args); i += 3 {
		ph, ok := c15ParsePhase(args[i], args[i+1], args[i+2])
		if !ok || len(ph.ids) != len(ph.procs) {
			return []string{"9"}
		}
		phases = append(phases, ph)
	}
	return c15RunPhasesWith(int(ai(args[1][0])), phases,
		func() { c15BigReset(c15Env, nrec, nfill, planted) },
		func() []string { return c15BigReport(c15Env, nfill, planted) })
}

// case: 5|id|prefix|count  — the first <count> numbers n >= 0 for which prefix+decimal(n) falls into the bucket of id in the
// id index (cmsys.StringHashWithHashBits, the function the index itself uses); result: 0 bucket MAX_USERS n1 n2 ...
func c15SameBucket(args [][]string) []string {
	if len(args) != 4 || len(args[3]) != 1 {
		return []string{"9"}
	}
	target := &ptttype.UserID_t{}
	copy(target[:ptttype.IDLEN], ab(args[1]))
	prefix := string(ab(args[2]))
	count := int(ai(args[3][0]))
	if count < 0 || count > 64 || len(prefix) < 1 || len(prefix) > 4 {
		return []string{"9"}
	}
	h := cmsys.StringHashWithHashBits(target[:])
	out := []string{"0", fmt.Sprint(uint32(h)), fmt.Sprint(ptttype.MAX_USERS)}
	for n := 0; n < 100000000 && count > 0; n++ {
		id := &ptttype.UserID_t{}
		copy(id[:ptttype.IDLEN], prefix+fmt.Sprint(n))
		if cmsys.StringHashWithHashBits(id[:]) == h {
			out = append(out, fmt.Sprint(n))
			count--
		}
	}
	return out
}
