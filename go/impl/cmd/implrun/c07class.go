package main

// C07 — the class listings (ptt.LoadClassBoards / ptt.LoadFullClassBoards and their bbs wrappers) on non-empty
// classes. The class tree of the scratch environment is planted into the board cache: the class is the fixture's
// class root (bid 1) or its nested class (bid 5); its children are fixture boards turned into the kinds below, one
// of them the board of the decision-table row (bid 10, planted by plantBoard). The sibling chain is either left to
// the code's own resolver (mode 0: Gid planted, FirstChild / Next / ChildCount cleared) or planted the way the C
// daemons sharing the segment leave it (mode 1: FirstChild / Next along the chain, last Next = -1, ChildCount = n).

import (
	"github.com/Ptt-official-app/go-pttbbs/bbs"
	"github.com/Ptt-official-app/go-pttbbs/cache"
	"github.com/Ptt-official-app/go-pttbbs/ptt"
	"github.com/Ptt-official-app/go-pttbbs/ptttype"
	"github.com/Ptt-official-app/go-pttbbs/types"
)

const (
	c07KindRow      = 0 // the board of the row (bid 10): attributes, level, moderator cache, friend list, BM field of the row
	c07KindVisible  = 1 // class, no restriction
	c07KindHidden   = 2 // class, hidden with restricted mask; the caller is neither friend nor moderator
	c07KindLevel    = 3 // class with a required level
	c07KindOver18   = 4 // over-18 class
	c07KindNonClass = 5 // ordinary board (neither class nor link) everybody may read
	c07KindVacated  = 6 // vacated slot (empty name)
	c07KindFixture  = 7 // the fixture's header as it is
	c07KindLink     = 8 // symbolic link, no restriction
	c07NBoards      = 12
)

type c07ClassState struct {
	ready bool
	n     int
	base  []ptttype.BoardHeaderRaw
	bm    [][ptttype.MAX_BMs]ptttype.UID
}

var c07Class = &c07ClassState{}

func (cs *c07ClassState) init() {
	if cs.ready {
		return
	}
	cs.n = int(cache.NumBoards())
	cs.base = make([]ptttype.BoardHeaderRaw, cs.n)
	cs.bm = make([][ptttype.MAX_BMs]ptttype.UID, cs.n)
	for k := 0; k < cs.n; k++ {
		cs.base[k] = cache.Shm.Shm.BCache[k]
		cs.bm[k] = cache.Shm.Shm.BMCache[k]
	}
	cs.ready = true
}

// back puts every header (but the row board's, which plantBoard owns) and moderator cache back.
func (cs *c07ClassState) back(w *world) {
	for k := 0; k < cs.n; k++ {
		if ptttype.Bid(k+1) == w.bid {
			continue
		}
		cache.Shm.Shm.BCache[k] = cs.base[k]
		cache.Shm.Shm.BMCache[k] = cs.bm[k]
		cache.Shm.Shm.Hbfl[k][0] = 0
	}
}

type c07Child struct {
	bid  ptttype.Bid
	kind int
}

// op 8: what the fixture holds: number of boards, then (bid, named, attr, level) per board, then the two sort orders as bids
func c07RunFixture() []string {
	cs := c07Class
	cs.init()
	out := []string{"0", oi(int64(cs.n))}
	for k := 0; k < cs.n; k++ {
		b := &cs.base[k]
		out = append(out, oi(int64(k+1)), obool(b.Brdname[0] != 0), oi(int64(b.BrdAttr)), oi(int64(b.Level)), obool(b.Title[0] != 0))
	}
	for s := 0; s < 2; s++ {
		for k := 0; k < cs.n; k++ {
			out = append(out, oi(int64(cache.Shm.Shm.BSorted[s][k].ToBid())))
		}
	}
	return out
}

// op 7: [7 mode class sort] user [battr blevel] [lvl] [bid kind ...] [others — fixture state, not read here]
func c07RunClass(w *world, args [][]string) []string {
	cs := c07Class
	cs.init()
	if len(args[0]) != 4 || len(args) != 6 || len(args[3]) != 1 || len(args[4])%2 != 0 {
		return []string{"9"}
	}
	mode, cls, sortBy := int(ai(args[0][1])), ptttype.Bid(ai(args[0][2])), ptttype.BSortBy(ai(args[0][3]))
	lvl := uint32(au(args[3][0]))
	if (mode != 0 && mode != 1) || (cls != 1 && cls != 5) || (sortBy != ptttype.BSORT_BY_NAME && sortBy != ptttype.BSORT_BY_CLASS) {
		return []string{"9"}
	}
	chain := []c07Child{}
	seen := map[ptttype.Bid]bool{}
	for k := 0; k+1 < len(args[4]); k += 2 {
		ch := c07Child{ptttype.Bid(ai(args[4][k])), int(ai(args[4][k+1]))}
		if ch.bid < 1 || int(ch.bid) > cs.n || ch.bid == cls || seen[ch.bid] || ch.kind < 0 || ch.kind > c07KindLink ||
			(ch.kind == c07KindRow) != (ch.bid == w.bid) {
			return []string{"9"}
		}
		seen[ch.bid] = true
		chain = append(chain, ch)
	}
	if !seen[w.bid] {
		return []string{"9"}
	}
	now := types.NowTS()

	plant := func() {
		w.restore()
		cs.back(w)
		for k := 0; k < cs.n; k++ {
			b := &cache.Shm.Shm.BCache[k]
			b.FirstChild = [ptttype.BSORT_BY_MAX]ptttype.Bid{}
			b.Next = [ptttype.BSORT_BY_MAX]ptttype.Bid{}
			b.ChildCount = 0
			b.Parent = 0
			if ptttype.Bid(k+1) != cls {
				b.Gid = 0
			}
		}
		for _, ch := range chain {
			k := ch.bid - 1
			b := &cache.Shm.Shm.BCache[k]
			b.Gid = cls
			if ch.kind == c07KindRow || ch.kind == c07KindFixture {
				continue
			}
			b.BM = ptttype.BM_t{}
			copy(b.BM[:], types.CstrToString(w.otherID[:]))
			cache.Shm.Shm.BMCache[k] = [ptttype.MAX_BMs]ptttype.UID{w.otherUID, -1, -1, -1}
			cache.Shm.Shm.Hbfl[k][0] = ptttype.UID(now) // a loaded, empty friend list
			cache.Shm.Shm.Hbfl[k][1] = 0
			b.Level = 0
			switch ch.kind {
			case c07KindVisible:
				b.BrdAttr = ptttype.BRD_GROUPBOARD
			case c07KindHidden:
				b.BrdAttr = ptttype.BRD_GROUPBOARD | ptttype.BRD_HIDE | ptttype.BRD_POSTMASK
			case c07KindLevel:
				b.BrdAttr = ptttype.BRD_GROUPBOARD
				b.Level = ptttype.PERM(lvl)
			case c07KindOver18:
				b.BrdAttr = ptttype.BRD_GROUPBOARD | ptttype.BRD_OVER18
			case c07KindNonClass:
				b.BrdAttr = 0
			case c07KindVacated:
				b.BrdAttr = ptttype.BRD_GROUPBOARD
				b.Brdname[0] = 0
			case c07KindLink:
				b.BrdAttr = ptttype.BRD_SYMBOLIC
			}
		}
		if mode == 1 && len(chain) > 0 {
			c := &cache.Shm.Shm.BCache[cls-1]
			c.ChildCount = int32(len(chain))
			for s := ptttype.BSortBy(0); s < ptttype.BSORT_BY_MAX; s++ {
				c.FirstChild[s] = chain[0].bid
				for k, ch := range chain {
					next := ptttype.Bid(-1)
					if k+1 < len(chain) {
						next = chain[k+1].bid
					}
					cache.Shm.Shm.BCache[ch.bid-1].Next[s] = next
					cache.Shm.Shm.BCache[ch.bid-1].Parent = cls
				}
			}
		}
	}
	user := func() *ptttype.UserecRaw { plant(); u := w.user; return &u }
	uu := bbs.UUserID(types.CstrToString(w.userID[:]))

	out := []string{"0"}
	out = append(out, c07Guard(func() []string {
		l, err := ptt.LoadClassBoards(user(), w.uid, cls, sortBy)
		return c07RawList(l, err)
	})...)
	// the sibling chain as the segment holds it after the call
	eff := sortBy
	if cls == 1 {
		eff = ptttype.BSORT_BY_CLASS
	}
	stored := []string{}
	for bid, steps := cache.Shm.Shm.BCache[cls-1].FirstChild[eff], 0; bid > 0 && int(bid) <= cs.n && steps < 2*cs.n; steps++ {
		stored = append(stored, oi(int64(bid)))
		bid = cache.Shm.Shm.BCache[bid-1].Next[eff]
	}
	out = append(out, c07Guard(func() []string {
		plant()
		l, err := bbs.LoadClassBoards(uu, cls, sortBy)
		return c07BbsList(l, err)
	})...)
	out = append(out, c07Guard(func() []string {
		l, next, err := ptt.LoadFullClassBoards(user(), w.uid, 1, 100)
		if next != nil {
			l = append(l, next)
		}
		return c07RawList(l, err)
	})...)
	out = append(out, c07Guard(func() []string {
		plant()
		l, next, err := bbs.LoadFullClassBoards(uu, 1, 100)
		if next != 0 {
			l = append(l, &bbs.BoardSummary{Bid: next})
		}
		return c07BbsList(l, err)
	})...)
	out = append(out, oi(int64(len(stored))))
	out = append(out, stored...)

	// back to the fixture (the other ops list over it); the row board keeps the row's attribute
	cs.back(w)
	w.restore()
	return out
}

// c07Guard: a listing answers (code, n, then (bid, title, attr) per entry); code 1 answered, 7 error, 8 panic
func c07Guard(f func() []string) (res []string) {
	defer func() {
		if r := recover(); r != nil {
			res = []string{"8", "0"}
		}
	}()
	return f()
}

func c07RawList(l []*ptttype.BoardSummaryRaw, err error) []string {
	if err != nil {
		return []string{"7", "0"}
	}
	out := []string{"1", oi(int64(len(l)))}
	for _, s := range l {
		title := "2"
		if s.Title != nil {
			title = "1"
		}
		out = append(out, oi(int64(s.Bid)), title, oi(int64(s.BrdAttr)))
	}
	return out
}

func c07BbsList(l []*bbs.BoardSummary, err error) []string {
	if err != nil {
		return []string{"7", "0"}
	}
	out := []string{"1", oi(int64(len(l)))}
	for _, s := range l {
		title := "2"
		if len(s.RealTitle) > 0 || len(s.BoardClass) > 0 {
			title = "1"
		}
		out = append(out, oi(int64(s.Bid)), title, oi(int64(s.BrdAttr)))
	}
	return out
}
