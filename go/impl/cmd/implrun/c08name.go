package main

// C08 — op 11: the target board's NAME is an input of the rule set. Two of the posting rules know a board by its name
// only: "never on the read-only system boards" (isReadonlyBoard: BN_SECURITY / BN_ALLPOST) and "except on the default
// board" (postpermMsg: ptttype.DEFAULT_BOARD). The decision table addresses three fixed boards, so a SECOND board whose
// name is related to one of the special names (longer, shorter, other case, one character off) never occurred.
//
//   11|op(1..5)|BN_SECURITY bytes|BN_ALLPOST bytes|DEFAULT_BOARD bytes|target board name bytes|user|rel|board|art
//
// The board group's bsel must be 0: what the board is follows from its name. A target name that one of the fixture
// boards WhoAmI / ALLPOST / SYSOP carries addresses that board. Any other name is given to a board of its own, next to
// all the boards of the scratch BBS (the special ones included): the board-cache slot of the ordinary fixture board
// WhoAmI gets the name (BCache record, re-sorted name index through cache.SortBCache, so that cache.GetBid finds it)
// and a board directory boards/<N>/<name> with the two fixture articles; after the row the slot is WhoAmI again and
// the directory is gone. Board names are unique up to case in a BBS: a name that another board of the cache carries in
// another case is a bad case (9).

import (
	"bytes"
	"os"
	"path/filepath"

	"github.com/Ptt-official-app/go-pttbbs/cache"
	"github.com/Ptt-official-app/go-pttbbs/ptttype"
	"github.com/Ptt-official-app/go-pttbbs/types"
)

func c08RunNamed(args [][]string) []string {
	if len(args) != 10 || len(args[1]) != 1 || len(args[7]) != 5 || len(args[8]) != 6 {
		return []string{"9"}
	}
	iop := ai(args[1][0])
	if iop < 1 || iop > 5 || ai(args[8][0]) != 0 {
		return []string{"9"}
	}
	security, allpost, dflt, target := c08ConfigName(args[2]), c08ConfigName(args[3]), c08ConfigName(args[4]), c08ConfigName(args[5])
	w := c08w
	if err := c08LoadConfig(security, allpost); err != nil {
		return errs(1)
	}
	// the names in force, as every later reader sees them
	if types.CstrToString(ptttype.BN_SECURITY[:]) != security || types.CstrToString(ptttype.BN_ALLPOST[:]) != allpost {
		return errs(2)
	}
	if !bytes.Equal(ptttype.DEFAULT_BOARD, []byte(dflt)) {
		return errs(3)
	}
	inner := append([][]string{{args[1][0]}}, args[6:]...)

	for k, b := range c08boards {
		if k < 3 && b.name == target { // one of the fixture's own target boards, by its own name
			c08tbOverride = b
			defer func() { c08tbOverride = nil }()
			return c08Run(inner)
		}
	}
	id := toBoardID(target)
	for i := 0; i < int(cache.Shm.Shm.BNumber); i++ {
		if types.Cstrcasecmp(cache.Shm.Shm.BCache[i].Brdname[:], id[:]) == 0 {
			return []string{"9"} // would be the second board of that name
		}
	}

	host := c08boards[0]
	dir := w.boardDir(target)
	if _, err := os.Stat(dir); err == nil {
		return []string{"9"} // a directory some other fixture owns
	}
	nb := &c08Board{name: target, bid: host.bid, id: id, base: host.base, dir: dir, pristine: map[string][]byte{}}
	nb.base.Brdname = id
	for n, c := range c08boards[2].pristine { // the two fixture articles and their index (as SYSOP / ALLPOST / Note got them)
		nb.pristine[n] = c
	}
	must(os.MkdirAll(dir, 0o755))
	for n, c := range nb.pristine {
		must(os.WriteFile(filepath.Join(dir, n), c, 0o644))
	}
	nDirs, nExtra := len(c08allDirs), len(c08extraBrds)
	c08allDirs = append(c08allDirs, dir)
	c08extraBrds = append(c08extraBrds, nb)
	cache.Shm.Shm.BCache[host.bid-1].Brdname = id
	cache.SortBCache()
	c08tbOverride = nb
	defer func() {
		c08tbOverride = nil
		c08allDirs = c08allDirs[:nDirs]
		c08extraBrds = c08extraBrds[:nExtra]
		cache.Shm.Shm.BCache[host.bid-1] = host.base
		cache.Shm.Shm.Hbfl[host.bid-1][0] = 0
		cache.SortBCache()
		os.RemoveAll(dir)
		me := types.CstrToString(w.userID[:])
		os.Remove(filepath.Join(w.env.home, "home", me[:1], me, "banned", "b_"+target))
		if es, err := os.ReadDir(filepath.Dir(dir)); err == nil && len(es) == 0 {
			os.Remove(filepath.Dir(dir))
		}
		_ = cache.SetBTotal(host.bid)
	}()
	if got, err := cache.GetBid(&id); err != nil || got != host.bid { // the board is found under its name
		return errs(4)
	}
	return c08Run(inner)
}
