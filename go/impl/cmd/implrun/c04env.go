package main

// C04, the environment the index lives in (ops 33 and 34 of the history case, see c04.go):
//
//   33 mode      how BBSHOME/.PASSWDS reaches the table. The records stay the ones written last (ops 20 / 24, which keep the mode):
//                  0  a regular file in BBSHOME
//                  1  a symbolic link with an ABSOLUTE target in another directory (<scratch>/datavol/PASSWDS.data: BBSHOME file linked into a data volume)
//                  2  a symbolic link with a RELATIVE target (../datavol/PASSWDS.data)
//                  3  a link to a link to the table (.PASSWDS -> ../datavol/PASSWDS.current -> PASSWDS.data)
//                Whatever the loader learns about the table (its size, its records) has to be learnt about the table, not about the directory entry.
//   34 k op..    the operation op (10 11 12 13 14 15 21) is executed by the LONG-LIVED attached process number k (0..2): started at its first use in
//                the history with cache.NewSHM(key, .., false), it stays attached and keeps whatever process-private state the package holds
//                until the history ends (op 29 starts a fresh process for every operation; the creator lives through all histories).
//                The peers answer over a pipe; a peer that has not answered within VERIF_C04_PEER_DEADLINE_MS (default 20000; set, remove, add
//                and lookups take microseconds, a load milliseconds) is killed: status 2, the history is abandoned as for op 29.

import (
	"bufio"
	"fmt"
	"io"
	"os"
	"os/exec"
	"path/filepath"
	"strconv"
	"strings"
	"time"

	"github.com/Ptt-official-app/go-pttbbs/cache"
	"github.com/Ptt-official-app/go-pttbbs/ptttype"
	"github.com/Ptt-official-app/go-pttbbs/types"
	"github.com/sirupsen/logrus"
)

const c04Modes = 4

// c04PutPasswd makes BBSHOME/.PASSWDS reach a table with exactly these bytes, in the given mode.
func c04PutPasswd(buf []byte, mode int) {
	if mode < 0 || mode >= c04Modes {
		panic("badcase:passwd mode")
	}
	link := ptttype.FN_PASSWD
	if err := os.Remove(link); err != nil && !os.IsNotExist(err) {
		panic(err)
	}
	if mode == 0 {
		must(os.WriteFile(link, buf, 0o600))
		return
	}
	cwd, err := os.Getwd()
	must(err)
	vol := filepath.Join(cwd, "datavol")
	must(os.MkdirAll(vol, 0o755))
	data := filepath.Join(vol, "PASSWDS.data")
	cur := filepath.Join(vol, "PASSWDS.current")
	_ = os.Remove(data)
	_ = os.Remove(cur)
	must(os.WriteFile(data, buf, 0o600))
	rel, err := filepath.Rel(filepath.Dir(filepath.Join(cwd, link)), data)
	must(err)
	switch mode {
	case 1:
		must(os.Symlink(data, link))
	case 2:
		must(os.Symlink(rel, link))
	case 3:
		must(os.Symlink("PASSWDS.data", cur))
		must(os.Symlink(filepath.Join(filepath.Dir(rel), "PASSWDS.current"), link))
	}
}

// op 33: the same records, reached another way
func c04Relink(st *c04State, mode int) {
	if mode < 0 || mode >= c04Modes {
		panic("badcase:passwd mode")
	}
	buf, err := os.ReadFile(ptttype.FN_PASSWD) // follows the links
	must(err)
	st.mode = mode
	c04PutPasswd(buf, mode)
}

// ---------------------------------------------------------------- long-lived attached processes

type c04Peer struct {
	cmd   *exec.Cmd
	in    io.WriteCloser
	lines chan string
}

const c04MaxPeers = 3

func c04PeerDeadline() time.Duration {
	ms := 20000
	if v, err := strconv.Atoi(os.Getenv("VERIF_C04_PEER_DEADLINE_MS")); err == nil && v > 0 {
		ms = v
	}
	return time.Duration(ms) * time.Millisecond
}

func c04StartPeer() (*c04Peer, error) {
	r, w, err := os.Pipe()
	if err != nil {
		return nil, err
	}
	cmd := exec.Command(os.Args[0], "C04PEER", "-deadline", "3600000")
	cmd.Env = append(os.Environ(), "VERIF_C04_KEY="+strconv.Itoa(int(cache.TestShmKey)))
	cmd.ExtraFiles = []*os.File{w} // fd 3 of the peer: one answer line per operation (the driver's stdout is buffered until it exits)
	cmd.Stdout, cmd.Stderr = io.Discard, io.Discard
	in, err := cmd.StdinPipe()
	if err != nil {
		r.Close()
		w.Close()
		return nil, err
	}
	if err := cmd.Start(); err != nil {
		r.Close()
		w.Close()
		return nil, err
	}
	w.Close()
	p := &c04Peer{cmd: cmd, in: in, lines: make(chan string, 4)}
	go func() {
		rd := bufio.NewReaderSize(r, 1<<16)
		for {
			l, err := rd.ReadString('\n')
			if len(l) > 0 {
				p.lines <- strings.TrimRight(l, "\n")
			}
			if err != nil {
				close(p.lines)
				r.Close()
				return
			}
		}
	}()
	return p, nil
}

func (p *c04Peer) stop() {
	_ = p.in.Close() // end of input: the peer's loop ends and it exits without touching the segment
	done := make(chan struct{})
	go func() { _ = p.cmd.Wait(); close(done) }()
	select {
	case <-done:
	case <-time.After(5 * time.Second):
		_ = p.cmd.Process.Kill()
		<-done
	}
}

func c04StopPeers(st *c04State) {
	for k, p := range st.peers {
		if p != nil {
			p.stop()
			st.peers[k] = nil
		}
	}
}

// op 34: g is executed by the long-lived attached process k
func c04ByPeer(st *c04State, k int, g []string) []string {
	zero13 := ob(make([]byte, int(ptttype.USER_ID_SZ)))
	if k < 0 || k >= c04MaxPeers || len(g) < 1 {
		panic("badcase:peer")
	}
	op := ai(g[0])
	switch op {
	case 10, 11, 12, 13, 14, 15, 21:
	default:
		panic("badcase:peer op")
	}
	withID := func(r []string) []string {
		if op == 13 || op == 14 || op == 15 {
			return append(r, zero13...)
		}
		return r
	}
	if st.peers[k] == nil {
		p, err := c04StartPeer()
		if err != nil {
			return withID([]string{"3", "98"})
		}
		st.peers[k] = p
	}
	p := st.peers[k]
	if _, err := io.WriteString(p.in, "1|"+strings.Join(g, " ")+"\n"); err != nil {
		return withID([]string{"3", "98"})
	}
	select {
	case l, alive := <-p.lines:
		out := strings.Fields(l)
		if !alive || len(out) < 2 {
			if os.Getenv("VERIF_SHOW_PANIC") != "" {
				fmt.Fprintln(os.Stderr, "peer:", k, "answered", l)
			}
			return withID([]string{"3", "98"})
		}
		return out
	case <-time.After(c04PeerDeadline()):
		_ = p.cmd.Process.Kill()
		p.stop()
		st.peers[k] = nil
		return withID([]string{"2", "0"})
	}
}

func init() {
	// the long-lived attached process of op 34: attaches once, then executes one operation per input line and answers on fd 3
	var answer *os.File
	register("C04PEER", &propDriver{
		run: func(args [][]string) (res []string) {
			defer func() { // a bad case line: answer anyway, the first process is waiting
				if r := recover(); r != nil {
					if answer != nil {
						_, _ = answer.WriteString("9 9\n")
					}
					res = []string{"9", "9"}
				}
			}()
			say := func(r []string) []string {
				if answer == nil {
					answer = os.NewFile(3, "answers")
				}
				if answer != nil {
					_, _ = answer.WriteString(strings.Join(r, " ") + "\n")
				}
				return r
			}
			key, err := strconv.Atoi(os.Getenv("VERIF_C04_KEY"))
			if err != nil || len(args) != 2 || len(args[1]) < 1 {
				return say([]string{"9", "9"})
			}
			if cache.Shm == nil {
				logrus.SetLevel(logrus.PanicLevel)
				logrus.SetOutput(io.Discard)
				ptttype.SetIsTest() // BBSHOME = ./testcase of the inherited working directory; cache.IsTest stays false (nothing here may remove the segment)
				if err := cache.NewSHM(types.Key_t(key), ptttype.USE_HUGETLB, false); err != nil {
					return say([]string{"3", "97"})
				}
			}
			return say(c04Step(&c04State{}, args[1]))
		},
	})
}
