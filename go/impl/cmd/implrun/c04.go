package main

// C04: the user-ID index in shared memory. One case is a whole history run on a real SysV segment:
//   1|op|op|...      ops (numbers; ids are USER_ID_SZ bytes, zero padded):
//     10 slot id   cache.AddToUHash          11 slot   cache.RemoveFromUHash      12 uid id  cache.SetUserID
//     13 id        cache.SearchUserRaw       14 id     cache.DoSearchUserRaw      15 uid     cache.GetUserID
//     20 ids...    write a .PASSWDS whose records carry these ids                 21         cache.LoadUHash
//     22           cache.Shm.Reset()         23        Number = Loaded = 0 (segment otherwise untouched)
//     25           a second process attaches (cache.NewSHM(key, .., false)) and runs the lookup battery
//     26 ver size  a second process attaches while the header says version ver / size size (restored afterwards)
//     27 id        bbs.ReloadUHash(id) (sysop only; implementation-only scenarios, not part of the model)
//     29 mode op.. the operation op (one of 10 11 12 13 14 15 21, with its arguments) is executed by a SECOND process that attached to
//                  the existing segment: mode 0 = cache.NewSHM(key, .., false), mode 1 = cache.NewSHM(key, .., true) finding the segment
//                  there (what a second daemon does at start-up); either way its Shm.IsNew is false. The second process is killed when
//                  it has not answered within VERIF_C04_PROC2_DEADLINE_MS (default 2500, a quarter of it after six such kills): status 2, and the history is abandoned
//                  after this step's observation (the line ends there).
//     24 n (slot id)*  write a .PASSWDS of n records, all with the empty id except the listed slots (sparse form of 20, for the large tables of the docker build)
//     30 ids...    set the lookup battery    31 h...   set the buckets whose chains are printed
//     32 slot...   print the ids of these slots only instead of all MAX_USERS (the docker build has 2 000 000); "32" alone goes back to all
//     33 mode      BBSHOME/.PASSWDS becomes a regular file (0) / a symbolic link to the table in another directory (1 absolute, 2 relative, 3 link to a link), same records
//     34 k op..    op is executed by the long-lived attached process k (0..2), which stays attached until the history ends (c04env.go)
// Every op prints  <status> <code> [13 bytes for 13/14/15 | n uids for 25]  followed by the observation
//   Number Loaded <#heads != -1> nb (h k slot*k end)*nb  <MAX_USERS*13 id bytes, or 13 bytes per watched slot after op 32>  nl uid*nl
// where the chains are walked in the attached memory (end: -1 proper, -2 link out of range, -3 longer than MAX_USERS).
//   11|op|op|...   the same as 1 for the production configuration: the -tags docker build runs it itself, the default build passes it to build/implrun_docker
//   2|id   cmsys.StringHashWithHashBits      3   constants of the compiled program
//   4      1 when this (the first) process created the segment (cache.Shm.IsNew), else 0
// implrun C04ATTACH is the second process: it attaches to the key in VERIF_C04_KEY and answers "1|ids..." with the uids.
// implrun C04PROC2 is the second process of op 29: it attaches (VERIF_C04_KEY, VERIF_C04_MODE), runs "1|op.." and answers with the op's result.

import (
	"bytes"
	"context"
	"errors"
	"fmt"
	"io"
	"os"
	"os/exec"
	"path/filepath"
	"strconv"
	"strings"
	"time"
	"unsafe"

	"github.com/Ptt-official-app/go-pttbbs/bbs"
	"github.com/Ptt-official-app/go-pttbbs/cache"
	"github.com/Ptt-official-app/go-pttbbs/cmbbs"
	"github.com/Ptt-official-app/go-pttbbs/cmsys"
	"github.com/Ptt-official-app/go-pttbbs/ptttype"
	"github.com/Ptt-official-app/go-pttbbs/types"
	"github.com/sirupsen/logrus"
)

type c04State struct {
	battery []*ptttype.UserID_t
	buckets []int64
	slots   []int64 // nil: every slot is printed
	mode    int     // how BBSHOME/.PASSWDS reaches the table (op 33, c04env.go)
	peers   [c04MaxPeers]*c04Peer
}

func c04ID(toks []string) *ptttype.UserID_t {
	id := &ptttype.UserID_t{}
	for i, t := range toks {
		if i >= len(id) {
			break
		}
		id[i] = byte(ai(t))
	}
	return id
}

func c04IDs(toks []string) []*ptttype.UserID_t {
	n := int(ptttype.USER_ID_SZ)
	out := []*ptttype.UserID_t{}
	for i := 0; i < len(toks); i += n {
		j := i + n
		if j > len(toks) {
			j = len(toks)
		}
		out = append(out, c04ID(toks[i:j]))
	}
	return out
}

func c04Err(err error) []string {
	switch {
	case err == nil:
		return []string{"0", "0"}
	case errors.Is(err, cache.ErrAddToUHash):
		return []string{"3", "1"}
	case errors.Is(err, cache.ErrRemoveFromUHash):
		return []string{"3", "2"}
	case errors.Is(err, cache.ErrInvalidUID):
		return []string{"3", "3"}
	case errors.Is(err, cache.ErrShmVersion):
		return []string{"3", "4"}
	case errors.Is(err, cache.ErrShmSize):
		return []string{"3", "5"}
	}
	return []string{"3", "99"}
}

func c04Observe(st *c04State) []string {
	shm := cache.Shm.Shm
	maxu := int(ptttype.MAX_USERS)
	out := make([]string, 0, 1024)
	nonempty := 0
	for h := range shm.HashHead {
		if shm.HashHead[h] != -1 {
			nonempty++
		}
	}
	out = append(out, oi(int64(shm.Number)), oi(int64(shm.Loaded)), oi(int64(nonempty)), oi(int64(len(st.buckets))))
	for _, h := range st.buckets {
		slots := []string{}
		end := int64(-3)
		val := shm.HashHead[h]
		for step := 0; step <= maxu; step++ {
			if val == -1 {
				end = -1
				break
			}
			if val < 0 || int(val) >= maxu {
				end = -2
				break
			}
			slots = append(slots, oi(int64(val)))
			val = shm.NextInHash[val]
		}
		if end == -3 { // MAX_USERS+1 hops without reaching an end: the model prints no slots for an over-long chain
			slots = slots[:0]
		}
		out = append(out, oi(h), oi(int64(len(slots))))
		out = append(out, slots...)
		out = append(out, oi(end))
	}
	if st.slots == nil {
		for i := 0; i < maxu; i++ {
			out = append(out, ob(shm.Userid[i][:])...)
		}
	} else {
		for _, i := range st.slots {
			out = append(out, ob(shm.Userid[i][:])...)
		}
	}
	out = append(out, oi(int64(len(st.battery))))
	for _, q := range st.battery {
		out = append(out, c04Search(q))
	}
	return out
}

func c04Search(q *ptttype.UserID_t) (res string) {
	defer func() {
		if r := recover(); r != nil {
			res = "-1"
		}
	}()
	uid, _ := cache.SearchUserRaw(q, nil)
	return oi(int64(uid))
}

// op 24: n records, the empty id everywhere except at the listed slots
func c04WritePasswdSparse(toks []string, mode int) {
	n := int(ai(toks[0]))
	w := 1 + int(ptttype.USER_ID_SZ)
	if n < 0 || n > int(ptttype.MAX_USERS)+8 || (len(toks)-1)%w != 0 {
		panic("badcase:sparse")
	}
	sz := int(ptttype.USEREC_RAW_SZ)
	off := int(unsafe.Offsetof(ptttype.USEREC_RAW.UserID))
	buf := make([]byte, sz*n)
	for i := 1; i < len(toks); i += w {
		slot := int(ai(toks[i]))
		if slot < 0 || slot >= n {
			panic("badcase:sparse slot")
		}
		id := c04ID(toks[i+1 : i+w])
		copy(buf[slot*sz+off:], id[:])
	}
	c04PutPasswd(buf, mode)
}

func c04WritePasswd(ids []*ptttype.UserID_t, mode int) {
	sz := int(ptttype.USEREC_RAW_SZ)
	off := int(unsafe.Offsetof(ptttype.USEREC_RAW.UserID))
	buf := make([]byte, sz*len(ids))
	for i, id := range ids {
		copy(buf[i*sz+off:], id[:])
	}
	c04PutPasswd(buf, mode)
}

// second process: attach, look the battery up, leave without removing the segment
func c04Spawn(st *c04State) ([]string, error) {
	line := "1|"
	parts := []string{}
	for _, q := range st.battery {
		parts = append(parts, strings.Join(ob(q[:]), " "))
	}
	line += strings.Join(parts, " ") + "\n"
	cmd := exec.Command(os.Args[0], "C04ATTACH")
	cmd.Env = append(os.Environ(), "VERIF_C04_KEY="+strconv.Itoa(int(cache.TestShmKey)))
	cmd.Stdin = strings.NewReader(line)
	var so, se bytes.Buffer
	cmd.Stdout, cmd.Stderr = &so, &se
	if err := cmd.Run(); err != nil {
		return nil, fmt.Errorf("attach process: %v %s", err, se.String())
	}
	return strings.Fields(so.String()), nil
}

var c04Proc2Hangs = 0

// op 29: the operation g is executed by a second process attached to the segment of this one.
func c04Proc2(mode string, g []string) []string {
	zero13 := ob(make([]byte, int(ptttype.USER_ID_SZ)))
	if len(g) < 1 {
		panic("badcase:proc2")
	}
	op := ai(g[0])
	switch op {
	case 10, 11, 12, 13, 14, 15, 21:
	default:
		panic("badcase:proc2 op")
	}
	withID := func(r []string) []string {
		if op == 13 || op == 14 || op == 15 {
			return append(r, zero13...)
		}
		return r
	}
	ms := 2500
	if v, err := strconv.Atoi(os.Getenv("VERIF_C04_PROC2_DEADLINE_MS")); err == nil && v > 0 {
		ms = v
	} else if c04Proc2Hangs >= 6 { // a tree on which second processes keep spinning: do not spend minutes on it (the first ones are re-run by the check with more time)
		ms /= 4
	}
	ctx, cancel := context.WithTimeout(context.Background(), time.Duration(ms)*time.Millisecond)
	defer cancel()
	cmd := exec.CommandContext(ctx, os.Args[0], "C04PROC2", "-deadline", strconv.Itoa(ms*4))
	cmd.Env = append(os.Environ(), "VERIF_C04_KEY="+strconv.Itoa(int(cache.TestShmKey)), "VERIF_C04_MODE="+mode)
	cmd.Stdin = strings.NewReader("1|" + strings.Join(g, " ") + "\n")
	var so, se bytes.Buffer
	cmd.Stdout, cmd.Stderr = &so, &se
	err := cmd.Run()
	if ctx.Err() != nil { // killed at the deadline: the operation did not return
		c04Proc2Hangs++
		return withID([]string{"2", "0"})
	}
	out := strings.Fields(so.String())
	if err != nil || len(out) < 2 {
		if os.Getenv("VERIF_SHOW_PANIC") != "" {
			fmt.Fprintln(os.Stderr, "proc2:", err, se.String(), so.String())
		}
		return withID([]string{"3", "98"})
	}
	return out
}

func c04Step(st *c04State, g []string) (res []string) {
	zero13 := ob(make([]byte, int(ptttype.USER_ID_SZ)))
	op := ai(g[0])
	defer func() {
		if r := recover(); r != nil {
			if s, ok := r.(string); ok && strings.HasPrefix(s, "badcase:") {
				panic(r)
			}
			if os.Getenv("VERIF_SHOW_PANIC") != "" {
				fmt.Fprintln(os.Stderr, "panic in step:", r)
			}
			res = []string{"1", "0"}
			if op == 13 || op == 14 || op == 15 {
				res = append(res, zero13...)
			}
		}
	}()
	switch op {
	case 10:
		return c04Err(cache.AddToUHash(ptttype.UIDInStore(int32(ai(g[1]))), c04ID(g[2:])))
	case 11:
		return c04Err(cache.RemoveFromUHash(ptttype.UIDInStore(int32(ai(g[1])))))
	case 12:
		return c04Err(cache.SetUserID(ptttype.UID(int32(ai(g[1]))), c04ID(g[2:])))
	case 13, 14:
		q := c04ID(g[1:])
		right := &ptttype.UserID_t{}
		var uid ptttype.UID
		if op == 13 {
			uid, _ = cache.SearchUserRaw(q, right)
		} else {
			uid, _ = cache.DoSearchUserRaw(q, right)
		}
		return append([]string{"0", oi(int64(uid))}, ob(right[:])...)
	case 15:
		id, err := cache.GetUserID(ptttype.UID(int32(ai(g[1]))))
		if err != nil {
			return append(c04Err(err), zero13...)
		}
		return append([]string{"0", "0"}, ob(id[:])...)
	case 20:
		c04WritePasswd(c04IDs(g[1:]), st.mode)
		return []string{"0", "0"}
	case 21:
		return c04Err(cache.LoadUHash())
	case 24:
		if len(g) < 2 {
			panic("badcase:sparse")
		}
		c04WritePasswdSparse(g[1:], st.mode)
		return []string{"0", "0"}
	case 22:
		cache.Shm.Reset()
		return []string{"0", "0"}
	case 23:
		cache.Shm.Shm.Number = 0
		cache.Shm.Shm.Loaded = 0
		return []string{"0", "0"}
	case 25:
		out, err := c04Spawn(st)
		if err != nil || len(out) < 1 || out[0] != "0" {
			return []string{"3", "98", "0"}
		}
		return append([]string{"0", "0", oi(int64(len(out) - 1))}, out[1:]...)
	case 26:
		ver, size := cache.Shm.Shm.Version, cache.Shm.Shm.Size
		cache.Shm.Shm.Version, cache.Shm.Shm.Size = int32(ai(g[1])), int32(ai(g[2]))
		out, err := c04Spawn(st)
		cache.Shm.Shm.Version, cache.Shm.Shm.Size = ver, size
		if err != nil || len(out) < 1 {
			return []string{"3", "98"}
		}
		if out[0] == "0" {
			return []string{"0", "0"}
		}
		return out[:2]
	case 27:
		id := c04ID(g[1:])
		err := bbs.ReloadUHash(bbs.UUserID(types.CstrToString(id[:])))
		switch {
		case err == nil:
			return []string{"0", "0"}
		case errors.Is(err, bbs.ErrInvalidPermission):
			return []string{"3", "7"}
		}
		return []string{"3", "8"}
	case 29:
		if len(g) < 3 || (g[1] != "0" && g[1] != "1") {
			panic("badcase:proc2 mode")
		}
		return c04Proc2(g[1], g[2:])
	case 33:
		if len(g) != 2 {
			panic("badcase:passwd mode")
		}
		c04Relink(st, int(ai(g[1])))
		return []string{"0", "0"}
	case 34:
		if len(g) < 3 {
			panic("badcase:peer")
		}
		return c04ByPeer(st, int(ai(g[1])), g[2:])
	case 30:
		st.battery = c04IDs(g[1:])
		return []string{"0", "0"}
	case 31:
		st.buckets = st.buckets[:0]
		for _, t := range g[1:] {
			h := ai(t)
			if h < 0 || h >= int64(len(cache.Shm.Shm.HashHead)) {
				panic("badcase:bucket")
			}
			st.buckets = append(st.buckets, h)
		}
		return []string{"0", "0"}
	case 32:
		if len(g) == 1 {
			st.slots = nil
			return []string{"0", "0"}
		}
		st.slots = []int64{}
		for _, t := range g[1:] {
			i := ai(t)
			if i < 0 || i >= int64(ptttype.MAX_USERS) {
				panic("badcase:slot")
			}
			st.slots = append(st.slots, i)
		}
		return []string{"0", "0"}
	}
	panic("badcase:op")
}

// case 11 on the default build: "11|op|op.." is a history for the production configuration (-tags docker: MAX_USERS 2 000 000). The driver built with
// those tags (implrun_docker next to this executable; checks/C04.py builds both) runs it and its answer is passed on, so that a replay file of such a
// history can be given to either driver.
func c04Relay(args [][]string) []string {
	groups := []string{}
	for _, g := range args {
		groups = append(groups, strings.Join(g, " "))
	}
	exe := filepath.Join(filepath.Dir(os.Args[0]), "implrun_docker")
	if _, err := os.Stat(exe); err != nil {
		return []string{"9"}
	}
	cmd := exec.Command(exe, "C04", "-deadline", "120000")
	cmd.Stdin = strings.NewReader(strings.Join(groups, "|") + "\n")
	var so, se bytes.Buffer
	cmd.Stdout, cmd.Stderr = &so, &se
	err := cmd.Run()
	out := strings.Fields(so.String())
	if len(out) == 0 {
		if os.Getenv("VERIF_SHOW_PANIC") != "" {
			fmt.Fprintln(os.Stderr, "relay:", err, se.String())
		}
		return []string{"9"}
	}
	return out
}

// newBBSEnv (bbsenv.go) without its cache.LoadUHash(): the set-up runs outside the driver's deadline, and the first load of the
// zeroed segment by its creator is one of the things this property is about - it has to happen inside a case.
func c04NewEnv(fixture string) *bbsEnv {
	logrus.SetLevel(logrus.PanicLevel)
	logrus.SetOutput(io.Discard)
	e := &bbsEnv{repo: repoRoot()}
	root, err := os.MkdirTemp("", "verifbbs")
	if err != nil {
		panic(err)
	}
	e.root = root
	e.home = filepath.Join(root, "testcase")
	must(os.MkdirAll(e.home, 0o755))
	must(os.Symlink(filepath.Join(e.repo, "types"), filepath.Join(root, "types")))
	e.loadFixture(fixture)
	must(os.Chdir(root))

	pid := os.Getpid()
	cache.TestShmKey = types.Key_t(0x56000000 + pid%0xffffff)
	cmbbs.TestPASSWDSEM_KEY = 0x57000000 + pid%0xffffff
	types.SetIsTest("main")
	ptttype.SetIsTest()
	cache.SetIsTest()
	cmbbs.SetIsTest()
	must(cache.NewSHM(cache.TestShmKey, ptttype.USE_HUGETLB, true))
	cache.Shm.Reset()
	_ = cmbbs.PasswdInit()
	return e
}

func init() {
	var env *bbsEnv
	register("C04", &propDriver{
		setup:    func() { env = c04NewEnv("ptt") },
		teardown: func() { env.close() },
		run: func(args [][]string) []string {
			top := ai(args[0][0])
			if top == 11 && int64(ptttype.MAX_USERS) < 100000 {
				return c04Relay(args) // a history of the production configuration given to the default build: the sibling driver built with -tags docker runs it
			}
			if top == 11 {
				top = 1
			}
			switch top {
			case 1:
				cache.Shm.Reset()
				c04WritePasswd(nil, 0)
				st := &c04State{}
				defer c04StopPeers(st)
				out := []string{"0"}
				for _, g := range args[1:] {
					if len(g) < 1 {
						return []string{"9"}
					}
					r := c04Step(st, g)
					out = append(out, r...)
					out = append(out, c04Observe(st)...)
					if r[0] == "2" { // a second process had to be killed: the history is abandoned here
						break
					}
				}
				return out
			case 2:
				return ok(oi(int64(cmsys.StringHashWithHashBits(c04ID(args[1])[:]))))
			case 3:
				return ok(oi(int64(ptttype.MAX_USERS)), oi(int64(len(cache.Shm.Shm.HashHead))), oi(int64(ptttype.USER_ID_SZ)),
					oi(int64(cache.SHM_VERSION)), oi(int64(cache.SHM_RAW_SZ)), oi(int64(cache.PRE_ALLOCATED_USERS)))
			case 4:
				return ok(obool(cache.Shm.IsNew))
			}
			return []string{"9"}
		},
	})

	// the second process of op 29: attaches to the existing segment (never creates it: the first process holds it), runs one operation
	register("C04PROC2", &propDriver{
		run: func(args [][]string) []string {
			key, err := strconv.Atoi(os.Getenv("VERIF_C04_KEY"))
			if err != nil || len(args) != 2 || len(args[1]) < 1 {
				return []string{"9", "9"}
			}
			logrus.SetLevel(logrus.PanicLevel)
			logrus.SetOutput(io.Discard)
			ptttype.SetIsTest() // BBSHOME = ./testcase of the inherited working directory; cache.IsTest stays false (CloseSHM must not remove the segment)
			if cache.Shm == nil {
				if err := cache.NewSHM(types.Key_t(key), ptttype.USE_HUGETLB, os.Getenv("VERIF_C04_MODE") == "1"); err != nil {
					return []string{"3", "97"}
				}
			}
			if cache.Shm.IsNew { // the segment was not there: not the scenario (and it must not stay behind)
				cache.SetIsTest()
				_ = cache.CloseSHM()
				return []string{"9", "9"}
			}
			return c04Step(&c04State{}, args[1])
		},
	})

	// the attaching process: no scratch tree, no creation; the key comes from the first process
	register("C04ATTACH", &propDriver{
		run: func(args [][]string) []string {
			key, err := strconv.Atoi(os.Getenv("VERIF_C04_KEY"))
			if err != nil {
				return []string{"9"}
			}
			logrus.SetLevel(logrus.PanicLevel)
			logrus.SetOutput(io.Discard)
			// IsTest stays false: on a failed handshake NewSHM calls CloseSHM, which must not remove the segment here
			if cache.Shm == nil {
				if err := cache.NewSHM(types.Key_t(key), ptttype.USE_HUGETLB, false); err != nil {
					return c04Err(err)
				}
			}
			out := []string{"0"}
			for _, q := range c04IDs(args[1]) {
				out = append(out, c04Search(q))
			}
			return out
		},
	})
}
