package main

// C14 — concurrent appends. A controller (driver "C14") forces interleavings of real
// cmsys.AppendRecord calls that run as goroutines inside 1..k worker processes (driver "C14W",
// re-exec of this binary), using the verif schedule points in cmsys.AppendRecord
// (append.locked / append.seeked / append.written). It returns the observed event trace, the
// per-thread results and the final file; the check replays the trace through the Coq model.

import (
	"bufio"
	"errors"
	"fmt"
	"io"
	"os"
	"os/exec"
	"path/filepath"
	"runtime"
	"strings"
	"sync"
	"syscall"
	"time"

	"github.com/Ptt-official-app/go-pttbbs/cmsys"
)

// c14AwayName: a record file whose write the OS refuses (ENOSPC), as on a full or over-quota volume. An appender marked
// "away" (process code 200+p) appends to it: open, table entry, flock and seek succeed, the write(2) fails. Its call is not
// stopped at the schedule points: it is one event, "failed".
// The file is the "full" device (character device 1:7, what /dev/full is) under a PRIVATE name next to the record file of the
// case: a node of its own if mknod is permitted, else a symbolic link to /dev/full. The code under test is never given the path
// /dev/full itself: a tree that unlinks or renames what it appends to would otherwise destroy the machine's device node.
const c14AwayName = ".DIR.full"

func c14MakeFull(dir string) string {
	p := filepath.Join(dir, c14AwayName)
	if err := syscall.Mknod(p, syscall.S_IFCHR|0o666, 1<<8|7); err == nil {
		if f, err := os.OpenFile(p, os.O_WRONLY, 0); err == nil {
			_, werr := f.Write([]byte{1})
			f.Close()
			if errors.Is(werr, syscall.ENOSPC) {
				return p
			}
		}
		os.Remove(p) // e.g. a nodev mount
	}
	must(os.Symlink("/dev/full", p))
	return p
}

// a payload encoding/binary refuses (int is not fixed-size): BinaryWrite fails inside the critical section
type c14Bad struct {
	T uint8
	V int
}

func goid() string { // "goroutine 123 [running]:..."
	var buf [64]byte
	n := runtime.Stack(buf[:], false)
	f := strings.Fields(string(buf[:n]))
	if len(f) >= 2 {
		return f[1]
	}
	return ""
}

// ------------------------------------------------------------------ worker

func c14Worker() {
	in := bufio.NewReader(os.Stdin)
	var outMu sync.Mutex
	emit := func(s string) {
		outMu.Lock()
		fmt.Println(s)
		outMu.Unlock()
	}
	gates := map[int]chan struct{}{}
	var gmu sync.Mutex
	gate := func(t int) chan struct{} {
		gmu.Lock()
		defer gmu.Unlock()
		return gates[t]
	}
	gids := map[string]int{}
	ungated := map[int]bool{} // away threads: never stopped
	cmsys.VerifPointHook = func(name string, data interface{}) {
		if name == "flock.tabled" {
			if fn, ok := data.(string); ok && filepath.Base(fn) == c14AwayName {
				return
			}
			// the calling appender holds its process' table entry and is about to call flock(2): report, do not stop
			gmu.Lock()
			t, ok := gids[goid()]
			gmu.Unlock()
			if ok {
				emit(fmt.Sprintf("ev %d 10", t))
			}
			return
		}
		t := -1
		switch d := data.(type) {
		case []byte:
			if len(d) > 0 {
				t = int(d[0]) - 1
			}
		case *c14Bad:
			t = int(d.T) - 1
		}
		if t < 0 {
			return
		}
		g := gate(t)
		if g == nil {
			return
		}
		gmu.Lock()
		free := ungated[t]
		gmu.Unlock()
		if free {
			return
		}
		code := map[string]int{"append.locked": 1, "append.seeked": 2, "append.written": 3}[name]
		if code == 0 {
			return
		}
		emit(fmt.Sprintf("ev %d %d", t, code))
		<-g
	}
	for {
		line, err := in.ReadString('\n')
		if err != nil {
			return
		}
		f := strings.Fields(line)
		if len(f) == 0 {
			continue
		}
		switch f[0] {
		case "maxprocs": // maxprocs <k>: the server runs with GOMAXPROCS=k
			runtime.GOMAXPROCS(int(ai(f[1])))
		case "init": // init <file> <sz> <tid>[b|f]...
			file := f[1]
			sz := int(ai(f[2]))
			for _, ts := range f[3:] {
				isBad := strings.HasSuffix(ts, "b")
				isAway := strings.HasSuffix(ts, "f")
				t := int(ai(strings.TrimSuffix(strings.TrimSuffix(ts, "b"), "f")))
				g := make(chan struct{})
				gmu.Lock()
				gates[t] = g
				ungated[t] = isAway
				gmu.Unlock()
				go func(t int, g chan struct{}) {
					gmu.Lock()
					gids[goid()] = t
					gmu.Unlock()
					<-g
					rec := make([]byte, sz)
					for i := range rec {
						rec[i] = byte(t + 1)
					}
					var data interface{} = rec
					if isBad {
						data = &c14Bad{T: uint8(t + 1)}
					}
					target := file
					if isAway {
						target = filepath.Join(filepath.Dir(file), c14AwayName)
					}
					idx, err := cmsys.AppendRecord(target, data, uintptr(sz))
					if err != nil {
						code := 2
						if err == cmsys.ErrPttLock {
							code = 1
						} else if errors.Is(err, syscall.ENOSPC) {
							code = 3 // the write(2) itself was refused
						}
						emit(fmt.Sprintf("done %d 0 %d", t, code))
					} else {
						emit(fmt.Sprintf("done %d %d 0", t, idx))
					}
				}(t, g)
			}
			emit("ready")
		case "go":
			t := int(ai(f[1]))
			gate(t) <- struct{}{}
		case "quit":
			return
		}
	}
}

// ------------------------------------------------------------------ big (sparse) record files

// c14MakeSparse: a record file of n records of sz bytes of which only the first and the last record are stored (bytes 200);
// everything between is a hole (reads as zero, takes no disk space) - what a .DIR / post log of that many records looks
// like to AppendRecord, which only looks at the length.
func c14MakeSparse(file string, sz int, n int64) bool {
	f, err := os.OpenFile(file, os.O_RDWR|os.O_CREATE|os.O_TRUNC, 0o644)
	if err != nil {
		return false
	}
	defer f.Close()
	if err := f.Truncate(int64(sz) * n); err != nil {
		return false
	}
	rec := make([]byte, sz)
	for i := range rec {
		rec[i] = 200
	}
	if n >= 1 {
		if _, err := f.WriteAt(rec, 0); err != nil {
			return false
		}
		if _, err := f.WriteAt(rec, int64(sz)*(n-1)); err != nil {
			return false
		}
	}
	return true
}

type c14Run_ struct {
	off int64
	b   []byte
}

// c14SparseRuns: the whole content of a sparse file, losslessly: its size and every maximal run of non-zero bytes. The
// data extents are enumerated with lseek(SEEK_DATA/SEEK_HOLE), so a 4 GiB hole costs nothing; more than 16 MiB of stored
// data is refused (a file system without hole support reports the whole file as data).
func c14SparseRuns(file string) (int64, []c14Run_, bool) {
	const seekData, seekHole = 3, 4
	f, err := os.Open(file)
	if err != nil {
		return 0, nil, false
	}
	defer f.Close()
	st, err := f.Stat()
	if err != nil {
		return 0, nil, false
	}
	size := st.Size()
	fd := int(f.Fd())
	var runs []c14Run_
	total := int64(0)
	pos := int64(0)
	for pos < size {
		d, err := syscall.Seek(fd, pos, seekData)
		if err != nil {
			if errors.Is(err, syscall.ENXIO) {
				break // no data after pos
			}
			return 0, nil, false
		}
		h, err := syscall.Seek(fd, d, seekHole)
		if err != nil {
			return 0, nil, false
		}
		if h > size {
			h = size
		}
		total += h - d
		if total > 16<<20 {
			return 0, nil, false
		}
		buf := make([]byte, h-d)
		if _, err := f.ReadAt(buf, d); err != nil && err != io.EOF {
			return 0, nil, false
		}
		for i := 0; i < len(buf); {
			if buf[i] == 0 {
				i++
				continue
			}
			j := i
			for j < len(buf) && buf[j] != 0 {
				j++
			}
			if n := len(runs); n > 0 && runs[n-1].off+int64(len(runs[n-1].b)) == d+int64(i) {
				runs[n-1].b = append(runs[n-1].b, buf[i:j]...) // a run continuing across two extents
			} else {
				runs = append(runs, c14Run_{d + int64(i), append([]byte{}, buf[i:j]...)})
			}
			i = j
		}
		pos = h
	}
	return size, runs, true
}

// ------------------------------------------------------------------ controller

type c14Event struct {
	t, code, idx int
}

type c14Proc struct {
	cmd *exec.Cmd
	in  io.WriteCloser
}

func c14Run(args [][]string) []string {
	big := ai(args[0][0]) == 2 // op 2: the file starts as a sparse file of ninit records, reported as (size, non-zero runs)
	sz := int(ai(args[1][0]))
	ninit := int(ai(args[1][1]))
	maxprocs := 0 // 0: the Go default (number of CPUs)
	if len(args[1]) > 2 {
		maxprocs = int(ai(args[1][2]))
	}
	procs := make([]int, len(args[2]))
	bad := make([]bool, len(args[2]))
	away := make([]bool, len(args[2]))
	nproc := 0
	for i, p := range args[2] {
		procs[i] = int(ai(p)) % 100
		bad[i] = ai(p) >= 100 && ai(p) < 200
		away[i] = ai(p) >= 200
		if procs[i]+1 > nproc {
			nproc = procs[i] + 1
		}
	}
	n := len(procs)
	sched := make([]int, len(args[3]))
	for i, s := range args[3] {
		sched[i] = int(ai(s))
	}
	dir, err := os.MkdirTemp("", "verifc14")
	must(err)
	defer os.RemoveAll(dir)
	file := filepath.Join(dir, ".DIR")
	nb := sz * ninit
	if big {
		nb = 0
	}
	initb := make([]byte, nb)
	for i := range initb {
		initb[i] = 200
	}
	if big {
		// a record file of ninit records that is a hole except for its first and its last record (bytes 200)
		if !c14MakeSparse(file, sz, int64(ninit)) {
			return []string{"3", "1"} // this file system cannot hold a file of that length
		}
	} else {
		must(os.WriteFile(file, initb, 0o644))
	}
	for _, a := range away {
		if a {
			c14MakeFull(dir)
			break
		}
	}

	events := make(chan c14Event, 64)
	ws := make([]*c14Proc, nproc)
	for p := 0; p < nproc; p++ {
		cmd := exec.Command(os.Args[0], "C14W")
		cmd.Env = os.Environ()
		in, _ := cmd.StdinPipe()
		out, _ := cmd.StdoutPipe()
		cmd.Stderr = io.Discard
		must(cmd.Start())
		ws[p] = &c14Proc{cmd, in}
		ready := make(chan bool, 1)
		go func(out io.Reader) {
			sc := bufio.NewScanner(out)
			for sc.Scan() {
				f := strings.Fields(sc.Text())
				switch f[0] {
				case "ready":
					ready <- true
				case "ev":
					events <- c14Event{int(ai(f[1])), int(ai(f[2])), 0}
				case "done":
					if ai(f[3]) == 0 {
						events <- c14Event{int(ai(f[1])), 4, int(ai(f[2]))}
					} else {
						events <- c14Event{int(ai(f[1])), 5, int(ai(f[3]))}
					}
				}
			}
		}(out)
		tids := []string{}
		for t := 0; t < n; t++ {
			if procs[t] == p {
				if bad[t] {
					tids = append(tids, fmt.Sprint(t)+"b")
				} else if away[t] {
					tids = append(tids, fmt.Sprint(t)+"f")
				} else {
					tids = append(tids, fmt.Sprint(t))
				}
			}
		}
		if maxprocs > 0 {
			fmt.Fprintf(in, "maxprocs %d\n", maxprocs)
		}
		fmt.Fprintf(in, "init %s %d %s\n", file, sz, strings.Join(tids, " "))
		select {
		case <-ready:
		case <-time.After(10 * time.Second):
			return []string{"2"}
		}
	}
	defer func() {
		for _, w := range ws {
			fmt.Fprintln(w.in, "quit")
			w.in.Close()
			done := make(chan struct{})
			go func(w *c14Proc) { w.cmd.Wait(); close(done) }(w)
			select {
			case <-done:
			case <-time.After(2 * time.Second):
				w.cmd.Process.Kill()
			}
		}
	}()

	phase := make([]int, n) // 0 start, 1 locked, 2 seeked, 3 written, 4 done
	pending := make([]bool, n)
	resCode := make([]int, n)
	resIdx := make([]int, n)
	trace := []string{}
	hang := false
	record := func(e c14Event) {
		switch e.code {
		case 10:
			pending[e.t] = true // holds the table entry, not (yet) the flock
		case 1, 2, 3:
			phase[e.t] = e.code
			pending[e.t] = false
		case 4:
			phase[e.t] = 4
			resCode[e.t] = 1
			resIdx[e.t] = e.idx
		case 5:
			phase[e.t] = 4
			resCode[e.t] = 2
			resIdx[e.t] = e.idx
			pending[e.t] = false
		}
		trace = append(trace, fmt.Sprint(e.t), fmt.Sprint(e.code))
	}
	nextEvent := func() (c14Event, bool) {
		select {
		case e := <-events:
			return e, true
		case <-time.After(8 * time.Second):
			hang = true
			return c14Event{}, false
		}
	}
	holderElsewhere := func(t int) bool { // somebody in another process holds (or is queued for) the flock
		for u := 0; u < n; u++ {
			if u != t && procs[u] != procs[t] && (phase[u] >= 1 && phase[u] <= 3) {
				return true
			}
		}
		return false
	}
	anyPending := func() bool {
		for _, p := range pending {
			if p {
				return true
			}
		}
		return false
	}
	release := func(t int) {
		if hang || phase[t] == 4 || pending[t] {
			return
		}
		fmt.Fprintf(ws[procs[t]].in, "go %d\n", t)
		if phase[t] == 0 {
			// first event: it either took its process' table entry (10) or was refused at once (5)
			for {
				e, ok := nextEvent()
				if !ok {
					return
				}
				record(e)
				if e.t == t {
					if e.code != 10 {
						return
					}
					break
				}
			}
			if holderElsewhere(t) {
				return // it now blocks in flock(LOCK_EX) until the holder (another process) releases
			}
		}
		// wait for this thread's next event; when it gives the flock back and threads are queued for it,
		// exactly one of them obtains it: that event is ordered after the release
		needLock := (phase[t] == 3 || (phase[t] == 2 && bad[t])) && anyPending()
		var mine, lock *c14Event
		for mine == nil || (needLock && lock == nil) {
			e, ok := nextEvent()
			if !ok {
				return
			}
			ev := e
			if e.t == t && mine == nil {
				mine = &ev
				if ev.code == 5 && phase[t] >= 1 && phase[t] <= 3 && anyPending() {
					needLock = true // an error return from inside the critical section (a refused seek or write) gives the flock back as well
				}
			} else if e.code == 1 && pending[e.t] && lock == nil {
				lock = &ev
			} else {
				record(ev) // not predicted: keep the observed order, the model replay decides
			}
		}
		record(*mine)
		if lock != nil {
			record(*lock)
		}
	}
	for _, t := range sched {
		if t < 0 {
			// a pause of -t x 100 ms: the current holder is slow (nothing may move meanwhile)
			time.Sleep(time.Duration(-t) * 100 * time.Millisecond)
			continue
		}
		if t < n {
			release(t)
		}
	}
	for guard := 0; guard < 10*n+10 && !hang; guard++ {
		moved := false
		for t := 0; t < n; t++ {
			if phase[t] != 4 && !pending[t] {
				release(t)
				moved = true
			}
		}
		if !moved {
			break
		}
	}
	if hang {
		return []string{"2"}
	}
	// an append issued after all the others have returned (thread n, process 0)
	lateCode, lateIdx := 0, 0
	{
		fmt.Fprintf(ws[0].in, "init %s %d %d\n", file, sz, n)
		for k := 0; k < 4 && lateCode == 0; k++ {
			fmt.Fprintf(ws[0].in, "go %d\n", n)
			for lateCode == 0 {
				e, ok := nextEvent()
				if !ok {
					return []string{"2"}
				}
				if e.t != n || e.code == 10 {
					continue // the table-entry notice is followed by the real schedule point
				}
				if e.code == 4 {
					lateCode, lateIdx = 1, e.idx
				} else if e.code == 5 {
					lateCode, lateIdx = 2, e.idx
				}
				break
			}
		}
	}
	out := append([]string{"0"}, trace...)
	out = append(out, "-1")
	for t := 0; t < n; t++ {
		out = append(out, fmt.Sprint(resCode[t]), fmt.Sprint(resIdx[t]))
	}
	out = append(out, fmt.Sprint(lateCode), fmt.Sprint(lateIdx))
	out = append(out, "-1")
	if big {
		size, runs, ok := c14SparseRuns(file)
		if !ok {
			return []string{"3", "2"} // holes of this file system cannot be enumerated (SEEK_DATA)
		}
		out = append(out, fmt.Sprint(size))
		for _, r := range runs {
			out = append(out, fmt.Sprint(r.off), fmt.Sprint(len(r.b)))
			out = append(out, ob(r.b)...)
		}
		return out
	}
	fb, _ := os.ReadFile(file)
	out = append(out, ob(fb)...)
	return out
}

func init() {
	register("C14", &propDriver{run: func(args [][]string) []string {
		switch ai(args[0][0]) {
		case 1, 2:
			return c14Run(args)
		}
		return []string{"9"}
	}})
	register("C14W", &propDriver{setup: func() { c14Worker(); os.Exit(0) }, run: func(args [][]string) []string { return []string{"9"} }})
}
