package main

// C08 — the two inputs of the write-authorisation rule set that do not live in a decision-table row:
//
// op 9: the SITE CONFIGURATION. The read-only system boards are configuration values (go-pttbbs:ptttype
// BN_SECURITY / BN_ALLPOST in the ini file). The case names both; the driver writes an ini file and loads it the way
// main() does after the packages were initialised — initgin.InitAllConfig(file): viper.ReadInConfig, api / types /
// ptttype / boardd InitConfig — and then runs one decision-table row against a target board chosen BY NAME.
//   9|op(1..5)|BN_SECURITY bytes|BN_ALLPOST bytes|target board name bytes|user|rel|board|art
// (board group: bsel must be 2 exactly when the target is the default board, else 0).
//
// op 10: the WRITER'S UID. The cool-down word lives in SHM->cooldowntime[uid-1]; uids run up to MAX_USERS, which is
// 50 in the default build and 2 000 000 in the production build (-tags docker). The case names the uid the caller
// acts under (the caller's record, id, home directory and user-hash entry are created at that uid), plants cool-down
// words of OTHER users first, then runs one decision-table row.
//   10|op(1..5)|uid MAX_USERS|other-uid cd_rel posttimes ...|user|rel|board|art
// result: the row's result + "a cool-down word of another user changed".

import (
	"bytes"
	"fmt"
	"os"
	"path/filepath"
	"strings"

	"github.com/Ptt-official-app/go-pttbbs/cache"
	"github.com/Ptt-official-app/go-pttbbs/cmbbs"
	"github.com/Ptt-official-app/go-pttbbs/initgin"
	"github.com/Ptt-official-app/go-pttbbs/ptttype"
	"github.com/Ptt-official-app/go-pttbbs/types"
	"github.com/sirupsen/logrus"
	"github.com/spf13/viper"
)

var (
	c08cfgLoaded string // "<BN_SECURITY>/<BN_ALLPOST>" of the configuration in force ("" = compiled-in)
	c08cfgN      int
)

func c08ConfigName(toks []string) string {
	b := c08Bytes(toks, 12)
	if len(b) == 0 {
		panic("badcase:empty board name")
	}
	for _, ch := range b {
		if !(ch >= 'a' && ch <= 'z' || ch >= 'A' && ch <= 'Z' || ch >= '0' && ch <= '9' || ch == '_' || ch == '-' || ch == '.') {
			panic("badcase:board name")
		}
	}
	return string(b)
}

// c08LoadConfig: an ini file naming the two read-only system boards, loaded through the project's start-up path.
func c08LoadConfig(security, allpost string) error {
	key := security + "/" + allpost
	if key == c08cfgLoaded {
		return nil
	}
	w := c08w
	c08cfgN++
	base := fmt.Sprintf("c08site%d", c08cfgN)
	file := filepath.Join(w.env.root, base+".ini")
	ini := "[go-pttbbs:ptttype]\nBBSHOME = " + w.env.home + "\nBN_SECURITY = " + security + "\nBN_ALLPOST = " + allpost + "\n"
	if err := os.WriteFile(file, []byte(ini), 0o644); err != nil {
		return err
	}
	defer os.Remove(file)
	viper.Reset()
	err := initgin.InitAllConfig(base + ".ini") // cwd is the scratch root: found through AddConfigPath(".")
	logrus.SetLevel(logrus.PanicLevel)          // SERVICE_MODE DEV turns debug logging on
	if err != nil {
		return err
	}
	c08cfgLoaded = key
	return nil
}

func c08RunConfigured(args [][]string) []string {
	if len(args) != 9 || len(args[1]) != 1 || len(args[6]) != 5 || len(args[7]) != 6 {
		return []string{"9"}
	}
	iop := ai(args[1][0])
	if iop < 1 || iop > 5 {
		return []string{"9"}
	}
	security, allpost, target := c08ConfigName(args[2]), c08ConfigName(args[3]), c08ConfigName(args[4])
	var tb *c08Board
	for k, b := range c08boards {
		if k != 3 && b.name == target { // Note is the cross-post source
			tb = b
		}
	}
	if tb == nil {
		return []string{"9"}
	}
	isDefault := types.Cstrcmp(tb.id[:], ptttype.DEFAULT_BOARD) == 0
	if bsel := ai(args[7][0]); (bsel == 2) != isDefault || (bsel != 0 && bsel != 2) {
		return []string{"9"}
	}
	if err := c08LoadConfig(security, allpost); err != nil {
		return errs(1)
	}
	// the configuration took effect (what every later reader of ptttype.BN_* sees)
	if types.CstrToString(ptttype.BN_SECURITY[:]) != security || types.CstrToString(ptttype.BN_ALLPOST[:]) != allpost {
		return errs(2)
	}
	c08tbOverride = tb
	defer func() { c08tbOverride = nil }()
	inner := append([][]string{{args[1][0]}}, args[5:]...)
	return c08Run(inner)
}

// ---------------------------------------------------------------------------------------------- op 10

type c08Identity struct {
	uid  ptttype.UID
	id   ptttype.UserID_t
	base ptttype.UserecRaw
}

var c08ids = map[ptttype.UID]*c08Identity{}

// c08IdentityAt: the caller as user number uid. The fixture uid keeps the fixture identity; at any other (free) uid a
// user "Vf<uid>" is created: record in .PASSWDS (the file is extended sparsely), id in SHM->userid + the user hash,
// home directory.
func c08IdentityAt(uid ptttype.UID) *c08Identity {
	w := c08w
	if id, ok := c08ids[uid]; ok {
		return id
	}
	if len(c08ids) == 0 {
		c08ids[w.uid] = &c08Identity{uid: w.uid, id: w.userID, base: w.baseUser}
		if uid == w.uid {
			return c08ids[uid]
		}
	}
	if cache.Shm.Shm.Userid[uid-1][0] != 0 {
		return nil // the slot belongs to another fixture user
	}
	name := fmt.Sprintf("Vf%d", uid)
	id := &c08Identity{uid: uid, id: toUserID(name), base: w.baseUser}
	id.base.UserID = id.id
	need := int64(uid) * int64(ptttype.USEREC_RAW_SZ)
	if st, err := os.Stat(ptttype.FN_PASSWD); err == nil && st.Size() < need {
		must(os.Truncate(ptttype.FN_PASSWD, need))
	}
	must(cmbbs.PasswdUpdate(uid, &id.base))
	_ = cache.SetUserID(uid, &id.id)
	if got, err := cache.DoSearchUserRaw(&id.id, nil); err != nil || got != uid {
		panic(fmt.Sprintf("user hash: %s -> %d, want %d (%v)", name, got, uid, err))
	}
	must(os.MkdirAll(filepath.Join(w.env.home, "home", name[:1], name, "banned"), 0o755))
	c08ids[uid] = id
	return id
}

func c08RunAsUID(args [][]string) []string {
	w := c08w
	if len(args) != 8 || len(args[1]) != 1 || len(args[2]) != 2 || len(args[3])%3 != 0 {
		return []string{"9"}
	}
	iop := ai(args[1][0])
	uid, maxUsers := ai(args[2][0]), ai(args[2][1])
	if iop < 1 || iop > 5 || maxUsers != int64(ptttype.MAX_USERS) || uid < 1 || uid > maxUsers {
		return []string{"9"}
	}
	type other struct {
		slot int64
		word types.Time4
	}
	now := types.NowTS()
	others := []other{}
	for k := 0; k+2 < len(args[3]); k += 3 {
		ou, cdRel, pt := ai(args[3][k]), ai(args[3][k+1]), ai(args[3][k+2])
		if ou < 1 || ou > maxUsers || ou == uid || pt < 0 || pt > 15 || cdRel < -100000 || cdRel > 100000 {
			return []string{"9"}
		}
		others = append(others, other{ou - 1, types.Time4((int64(now)+cdRel)&0x7FFFFFF0) | types.Time4(pt)})
	}
	id := c08IdentityAt(ptttype.UID(uid))
	if id == nil {
		return []string{"9"}
	}
	orig := c08ids[w.uid]
	if orig == nil || strings.HasPrefix(types.CstrToString(w.userID[:]), "Vf") {
		panic("identity not restored")
	}
	for _, o := range others {
		cache.Shm.Shm.CooldownTime[o.slot] = o.word
	}
	fixtureUID, fixtureID, fixtureBase := w.uid, w.userID, w.baseUser
	w.uid, w.userID, w.baseUser = id.uid, id.id, id.base
	var res []string
	func() {
		defer func() { w.uid, w.userID, w.baseUser = fixtureUID, fixtureID, fixtureBase }()
		res = c08Run(append([][]string{{args[1][0]}}, args[4:]...))
	}()
	changed := false
	for k := len(others) - 1; k >= 0; k-- { // (a later planting of the same slot overrides an earlier one)
		o := others[k]
		later := false
		for _, p := range others[k+1:] {
			later = later || p.slot == o.slot
		}
		if !later && cache.Shm.Shm.CooldownTime[o.slot] != o.word {
			changed = true
		}
	}
	for _, o := range others {
		cache.Shm.Shm.CooldownTime[o.slot] = 0
	}
	cache.Shm.Shm.CooldownTime[uid-1] = 0
	if len(res) == 0 || res[0] != "0" {
		return res
	}
	if !bytes.Equal(w.userID[:], fixtureID[:]) {
		panic("identity not restored")
	}
	return append(res, obool(changed))
}
