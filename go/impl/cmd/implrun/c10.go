package main

// C10 — comments: plants a .DIR and an article file in the scratch board WhoAmI (bid 10), sets the board
// attributes in shared memory, and drives ptt.Recommend step by step; after every step the article file
// and the .DIR are compared byte for byte with their content before the step.

import (
	"bytes"
	"encoding/binary"
	"errors"
	"os"
	"path/filepath"
	"strconv"
	"time"

	"github.com/Ptt-official-app/go-pttbbs/cache"
	"github.com/Ptt-official-app/go-pttbbs/cmsys"
	"github.com/Ptt-official-app/go-pttbbs/ptt"
	"github.com/Ptt-official-app/go-pttbbs/ptttype"
)

const c10Bid = ptttype.Bid(10)

var (
	c10Env       *bbsEnv
	c10BoardID   = &ptttype.BoardID_t{'W', 'h', 'o', 'A', 'm', 'I'}
	c10BoardDir  string
	c10OrigAttr  ptttype.BrdAttr
	c10OrigPause uint8
)

func c10User(uid13 []byte) *ptttype.UserecRaw {
	u := &ptttype.UserecRaw{
		Version:      4194,
		UFlag:        ptttype.UF_CURSOR_ASCII | ptttype.UF_DBCS_DROP_REPEAT | ptttype.UF_DBCS_AWARE | ptttype.UF_ADBANNER | ptttype.UF_BRDSORT,
		UserLevel:    ptttype.PERM_DEFAULT | ptttype.PERM_LOGINOK | ptttype.PERM_POST,
		NumLoginDays: 2,
		FirstLogin:   1600681288,
		LastLogin:    1600756094,
		Over18:       true,
		Pager:        ptttype.PAGER_ON,
		LastSeen:     1600681288,
	}
	copy(u.UserID[:], uid13)
	return u
}

func c10ErrCode(err error) int {
	switch {
	case errors.Is(err, ptt.ErrNotPermitted):
		return 1
	case errors.Is(err, ptt.ErrInvalidParams):
		return 2
	case errors.Is(err, cmsys.ErrRecordNotFound):
		return 3
	case errors.Is(err, ptttype.ErrInvalidIdx):
		return 4
	case errors.Is(err, ptt.ErrCooldown):
		return 5
	}
	return 9
}

func c10Setup() {
	c10Env = newBBSEnv("ptt", true)
	c10BoardDir = filepath.Join(c10Env.home, "boards", "W", "WhoAmI")
	b, err := cache.GetBCache(c10Bid)
	must(err)
	c10OrigAttr = b.BrdAttr
	c10OrigPause = b.FastRecommendPause
}

func c10Run(args [][]string) []string {
	if op := ai(args[0][0]); op == 2 || op == 3 {
		return c10RunBoard(args, op == 3) // c10board.go: several articles, several commenters, all comment-related board attributes
	}
	if ai(args[0][0]) == 5 {
		return c10RunTwoBoards(args) // c10two.go: two boards holding the same article file name, comments back to back in one process
	}
	// op 4 = op 1 on an index whose addressed entry carries a given Modified stamp: group 7 is [rel v] - the stamp is
	// v (rel = 0) or the driver's clock reading at planting time + v (rel = 1: "v seconds ahead of the clock")
	op := ai(args[0][0])
	if (op != 1 && op != 4) || len(args) < 7 {
		return []string{"9"}
	}
	flags := args[1]
	if len(flags) != 3 {
		return []string{"9"}
	}
	dir, name, art, ip, uid := ab(args[2]), ab(args[3]), ab(args[4]), ab(args[5]), ab(args[6])
	first := 7
	stamp := int64(0)
	if op == 4 {
		if len(args) < 8 || len(args[7]) != 2 {
			return []string{"9"}
		}
		stamp = ai(args[7][1])
		if ai(args[7][0]) != 0 {
			stamp += time.Now().Unix()
		}
		if stamp < -(1<<31) || stamp >= 1<<31 || !c10Stamp(dir, name, int32(stamp)) {
			return []string{"9"}
		}
		first = 8
	}
	var steps [][]string
	for _, g := range args[first:] {
		if len(g) == 1 && g[0] == "99" {
			break // observations (for the model) follow
		}
		if len(g) == 0 {
			return []string{"9"}
		}
		steps = append(steps, g)
	}
	// plant the board: .DIR, the article, board attributes, cached total
	ents, _ := os.ReadDir(c10BoardDir)
	for _, e := range ents {
		os.RemoveAll(filepath.Join(c10BoardDir, e.Name()))
	}
	dirPath := filepath.Join(c10BoardDir, ".DIR")
	must(os.WriteFile(dirPath, dir, 0o644))
	fn := &ptttype.Filename_t{}
	copy(fn[:], name)
	artPath := filepath.Join(c10BoardDir, fn.String())
	must(os.WriteFile(artPath, art, 0o644))
	board, err := cache.GetBCache(c10Bid)
	must(err)
	attr := c10OrigAttr &^ (ptttype.BRD_ALIGNEDCMT | ptttype.BRD_IPLOGRECMD | ptttype.BRD_NORECOMMEND | ptttype.BRD_NOBOO | ptttype.BRD_NOFASTRECMD)
	board.FastRecommendPause = c10OrigPause
	if ai(flags[0]) != 0 {
		attr |= ptttype.BRD_ALIGNEDCMT
	}
	if ai(flags[1]) != 0 {
		attr |= ptttype.BRD_IPLOGRECMD
	}
	if ai(flags[2]) != 0 {
		attr |= ptttype.BRD_NORECOMMEND
	}
	board.BrdAttr = attr
	must(cache.SetBTotal(c10Bid))
	user := c10User(uid)
	ipRaw := &ptttype.IPv4_t{}
	copy(ipRaw[:], ip)

	out := []string{"0", strconv.Itoa(len(steps))}
	for _, g := range steps {
		ct := ptttype.CommentType(uint8(ai(g[0])))
		content := ab(g[1:])
		dir0, _ := os.ReadFile(dirPath)
		art0, _ := os.ReadFile(artPath)
		line, mtime, err := ptt.Recommend(user, 2, c10BoardID, c10Bid, fn, ct, content, ipRaw, nil)
		dir1, _ := os.ReadFile(dirPath)
		art1, _ := os.ReadFile(artPath)
		if err != nil {
			out = append(out, "3", strconv.Itoa(c10ErrCode(err)), obool(string(art0) != string(art1)), obool(string(dir0) != string(dir1)))
			continue
		}
		out = append(out, "0", strconv.Itoa(len(line)))
		out = append(out, ob(line)...)
		out = append(out, oi(int64(mtime)))
		if len(art1) >= len(art0) && string(art1[:len(art0)]) == string(art0) {
			out = append(out, "1", strconv.Itoa(len(art1)-len(art0)))
			out = append(out, ob(art1[len(art0):])...)
		} else {
			out = append(out, "0", "0")
		}
		var diff []string
		if len(dir1) != len(dir0) {
			diff = []string{"-1", strconv.Itoa(len(dir1))} // the index changed its length
		} else {
			for i := range dir1 {
				if dir1[i] != dir0[i] {
					diff = append(diff, strconv.Itoa(i), strconv.Itoa(int(dir1[i])))
				}
			}
		}
		out = append(out, strconv.Itoa(len(diff)/2))
		out = append(out, diff...)
		// score of the addressed entry as the index now has it
		total, _ := cache.GetBTotalWithRetry(c10Bid)
		_, fhdr, err := cmsys.GetRecord(dirPath, fn, int(total))
		if err != nil {
			out = append(out, "-999")
		} else {
			out = append(out, oi(int64(fhdr.Recommend)))
		}
		// the article file's own modification time, read by the driver after the step (not what Recommend returned)
		out = append(out, oi(c10FileMtime(artPath)))
	}
	if op == 4 {
		out = append(out, oi(stamp)) // the stamp that was planted (the check hands it to the model)
	}
	return out
}

// c10FileMtime: the modification time of the file in seconds as the file system has it (-1: no such file)
func c10FileMtime(p string) int64 {
	info, err := os.Stat(p)
	if err != nil {
		return -1
	}
	return info.ModTime().Unix()
}

// c10Stamp writes stamp into the Modified field (bytes 28..31, little endian) of the entry of dir that carries name
func c10Stamp(dir []byte, name []byte, stamp int32) bool {
	for e := 0; e+128 <= len(dir); e += 128 {
		if len(name) >= 28 && bytes.Equal(dir[e:e+28], name[:28]) {
			binary.LittleEndian.PutUint32(dir[e+28:e+32], uint32(stamp))
			return true
		}
	}
	return false
}

func init() {
	register("C10", &propDriver{
		setup: c10Setup,
		run:   c10Run,
		teardown: func() {
			if b, err := cache.GetBCache(c10Bid); err == nil {
				b.BrdAttr = c10OrigAttr
				b.FastRecommendPause = c10OrigPause
			}
			if b, err := cache.GetBCache(c10Bid2); err == nil && c10Orig2Set {
				b.BrdAttr = c10OrigAttr2
			}
			c10Env.close()
		},
	})
}
