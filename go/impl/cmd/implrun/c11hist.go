package main

// C11, op 8: a HISTORY of the board cache in fresh driver state (shared memory reset, no .BRD): first-time and
// error paths of (re)loading, then creations, then lookups. One case line = one whole scenario (so that a replay is
// self-contained):   8|step|step|...      Every step is one group, the first number is its kind:
//
//	1 tail n (13 name bytes, 5 title bytes)*n   write .BRD = n records + `tail` bytes of a further, incomplete record; cache.ReloadBCache
//	2                                           cache.ReloadBCache on whatever .BRD there is (none in the fresh state)
//	3 (13 name bytes, 5 title bytes)            creation, append path of ptt.addBoardRecord: cmsys.AppendRecord(.BRD) + cache.AddbrdTouchCache
//	4 (13 name bytes) (4 class bytes)           creation through bbs.CreateBoard -> ptt.NewBoard -> mNewbrd -> addBoardRecord (as SYSOP)
//	5 q...                                      GetBid, FindBoardIdxByName asc/desc, FindBoardAutoCompleteStartIdx asc/desc for the name q
//	6 len cls... q...                           FindBoardIdxByClass asc/desc
//	7 k asc by                                  listing walk through bbs.LoadGeneralBoards (by 0 = name, 1 = class): pages, positions
//	8 k asc kw...                               auto-complete listing walk through bbs.LoadAutoCompleteBoards: pages, positions in BSorted[by name]
//	9                                           dump: BSorted[by name][0..n), BSorted[by class][0..n), then 13 name + 5 title bytes per board
//
// Result: status 0, then one length-prefixed record per step:  len err busy busyB n frecs payload...
//   err    0 = the operation returned normally; 1 AppendRecord failed; 2 AddbrdTouchCache: busy; 3 AddbrdTouchCache: other error;
//          4 CreateBoard: the name exists; 5 CreateBoard: other error; 6 a listing returned an error; 7 a listing is not over after 2n+3 pages
//   busy   Shm.BBusyState after the operation returned; busyB = number of boards whose BusyStateB is not 0
//   n      Shm.BNumber; frecs = complete records in .BRD (-1: no file)
// A lookup that returned an error is -100. When a busy flag is found set after an operation returned, every lookup sleeps a second
// on it: the scenario then goes on for at most c11SlowBudget further calls, at most c11SlowLookups lookups after each operation (none from the fourth such scenario of a process on); what is not run is -7 (a record "1 -7" for a whole step).

import (
	"bytes"
	"encoding/binary"
	"os"
	"path/filepath"

	"github.com/Ptt-official-app/go-pttbbs/bbs"
	"github.com/Ptt-official-app/go-pttbbs/cache"
	"github.com/Ptt-official-app/go-pttbbs/cmsys"
	"github.com/Ptt-official-app/go-pttbbs/ptttype"
	"github.com/Ptt-official-app/go-pttbbs/types"
)

const c11SlowBudget = 6  // calls per scenario once a flag is found set
const c11SlowLookups = 2 // of which lookup calls after each operation

// scenarios of this process in which a busy flag was found set: from the fourth on they stop at once (budget 0), so that a
// tree that leaves the flag behind costs the check seconds per scenario only a few times (a replay is a process of its own)
var c11StuckScenarios = 0

func c11Rec(nameTitle []byte) *ptttype.BoardHeaderRaw {
	b := &ptttype.BoardHeaderRaw{}
	copy(b.Brdname[:], nameTitle[:13])
	if b.Brdname[0] != 0 {
		copy(b.Title[:], nameTitle[13:18])
		copy(b.Title[5:], []byte("\xa1\xb7test board"))
		b.Gid = 1
	}
	return b
}

func c11BusyB() int64 {
	n := int64(0)
	for i := 0; i < ptttype.MAX_BOARD; i++ {
		if cache.Shm.Shm.BusyStateB[i] != 0 {
			n++
		}
	}
	return n
}

func c11Scenario(env *bbsEnv, steps [][]string) []string {
	brd := filepath.Join(env.home, ".BRD")
	created := []string{}
	// fresh driver state: shared memory as after start-up, no board file
	_ = os.Remove(brd)
	env.reload(false)
	defer func() {
		for _, d := range created {
			_ = os.RemoveAll(d)
		}
		_ = os.Remove(brd)
		env.reload(false)
	}()

	out := []string{"0"}
	slow := -1                                // -1: no busy flag seen set so far
	sinceOp := 0                              // lookup calls since the last operation, counted while a flag is set
	spendN := func(n int, lookup bool) bool { // false: out of budget, do not run
		if slow < 0 {
			return true
		}
		if lookup && sinceOp+n > c11SlowLookups {
			return false
		}
		if slow < n {
			slow = 0
			return false
		}
		slow -= n
		if lookup {
			sinceOp += n
		} else {
			sinceOp = 0
		}
		return true
	}
	spend := func(n int) bool { return spendN(n, true) }
	spendOp := func(n int) bool { return spendN(n, false) }
	nB := func() int {
		n := int(cache.Shm.GetBNumber())
		if n < 0 {
			n = 0
		}
		if n > ptttype.MAX_BOARD {
			n = ptttype.MAX_BOARD
		}
		return n
	}
	pos := func(by ptttype.BSortBy, name string) int64 {
		for i := 0; i < nB(); i++ {
			b := cache.Shm.Shm.BSorted[by][i]
			if b >= 0 && int(b) < ptttype.MAX_BOARD && types.CstrToString(cache.Shm.Shm.BCache[b].Brdname[:]) == name {
				return int64(i + 1)
			}
		}
		return -99
	}
	id := func(b []byte) *ptttype.BoardID_t {
		x := &ptttype.BoardID_t{}
		copy(x[:], b)
		return x
	}
	sidx := func(idx ptttype.SortIdx, err error) string {
		if err != nil {
			return "-100"
		}
		return oi(int64(idx))
	}

	for _, st := range steps {
		if len(st) == 0 {
			panic("badcase:step")
		}
		kind := ai(st[0])
		errc := int64(0)
		payload := []string{}
		skipped := false
		switch kind {
		case 1:
			tail, n := int(ai(st[1])), int(ai(st[2]))
			data := ab(st[3:])
			if len(data) != 18*n {
				panic("badcase:install")
			}
			if !spendOp(c11SlowBudget) {
				skipped = true
				break
			}
			buf := &bytes.Buffer{}
			for i := 0; i < n; i++ {
				must(binary.Write(buf, binary.LittleEndian, c11Rec(data[18*i:18*i+18])))
			}
			for i := 0; i < tail; i++ {
				buf.WriteByte('z')
			}
			must(os.WriteFile(brd, buf.Bytes(), 0o644))
			cache.ReloadBCache()
		case 2:
			if !spendOp(c11SlowBudget) {
				skipped = true
				break
			}
			cache.ReloadBCache()
		case 3:
			data := ab(st[1:])
			if len(data) != 18 {
				panic("badcase:create")
			}
			if !spendOp(1) {
				skipped = true
				break
			}
			if _, err := cmsys.AppendRecord(ptttype.FN_BOARD, c11Rec(data), ptttype.BOARD_HEADER_RAW_SZ); err != nil {
				errc = 1
			} else if _, err := cache.AddbrdTouchCache(); err == cache.ErrBusy {
				errc = 2
			} else if err != nil {
				errc = 3
			}
		case 4:
			data := ab(st[1:])
			if len(data) != 17 {
				panic("badcase:newboard")
			}
			if !spendOp(3) {
				skipped = true
				break
			}
			bid := id(data[:13])
			name := types.CstrToString(bid[:])
			cls := data[13:17]
			dir := filepath.Join(env.home, "boards", name[:1], name)
			_, statErr := os.Stat(dir)
			_, err := bbs.CreateBoard(bbs.UUserID("SYSOP"), 1, name, cls, []byte("test board"), nil, 0, 0, 0, false)
			if statErr != nil {
				created = append(created, dir)
			}
			if err == ptttype.ErrBoardIDAlreadyExists {
				errc = 4
			} else if err != nil {
				errc = 5
			}
		case 5:
			q := ab(st[1:])
			if spend(1) {
				b, err := cache.GetBid(id(q))
				if err != nil {
					payload = append(payload, "-100")
				} else {
					payload = append(payload, oi(int64(b)))
				}
			} else {
				payload = append(payload, "-7")
			}
			for _, asc := range []bool{true, false} {
				if spend(1) {
					payload = append(payload, sidx(cache.FindBoardIdxByName(id(q), asc)))
				} else {
					payload = append(payload, "-7")
				}
			}
			for _, asc := range []bool{true, false} {
				if spend(1) {
					payload = append(payload, sidx(cache.FindBoardAutoCompleteStartIdx(q, asc)))
				} else {
					payload = append(payload, "-7")
				}
			}
		case 6:
			l := int(ai(st[1]))
			cls, q := ab(st[2:2+l]), ab(st[2+l:])
			for _, asc := range []bool{true, false} {
				if spend(1) {
					payload = append(payload, sidx(cache.FindBoardIdxByClass(cls, id(q), asc)))
				} else {
					payload = append(payload, "-7")
				}
			}
		case 7, 8:
			k, asc := int(ai(st[1])), ai(st[2]) != 0
			by := ptttype.BSORT_BY_NAME
			kw := ""
			if kind == 7 {
				if ai(st[3]) != 0 {
					by = ptttype.BSORT_BY_CLASS
				}
			} else {
				kw = string(ab(st[3:]))
			}
			visited := []string{}
			pages := int64(0)
			cursor := ""
			n := nB()
			done := false
			for iter := 0; iter < 2*n+3 && !done; iter++ {
				if !spend(1) {
					visited = append(visited, "-7")
					done = true
					break
				}
				var ss []*bbs.BoardSummary
				var next string
				var err error
				if kind == 7 {
					ss, next, err = bbs.LoadGeneralBoards(bbs.UUserID("SYSOP"), cursor, k, nil, nil, asc, by)
				} else {
					ss, next, err = bbs.LoadAutoCompleteBoards(bbs.UUserID("SYSOP"), cursor, k, kw, asc)
				}
				if err != nil {
					errc = 6
					done = true
					break
				}
				pages++
				for _, s := range ss {
					visited = append(visited, oi(pos(by, s.Brdname)))
				}
				if next == "" {
					done = true
					break
				}
				cursor = next
			}
			if !done {
				errc = 7
			}
			payload = append([]string{oi(pages)}, visited...)
		case 9:
			n := nB()
			for s := 0; s < 2; s++ {
				for i := 0; i < n; i++ {
					payload = append(payload, oi(int64(cache.Shm.Shm.BSorted[s][i])))
				}
			}
			for i := 0; i < n; i++ {
				payload = append(payload, ob(cache.Shm.Shm.BCache[i].Brdname[:])...)
				payload = append(payload, ob(cache.Shm.Shm.BCache[i].Title[:5])...)
			}
		default:
			panic("badcase:kind")
		}
		if skipped {
			out = append(out, "1", "-7")
			continue
		}
		frecs := int64(-1)
		if fi, err := os.Stat(brd); err == nil {
			frecs = fi.Size() / int64(ptttype.BOARD_HEADER_RAW_SZ)
		}
		busy, busyB := int64(cache.Shm.Shm.BBusyState), c11BusyB()
		if (busy != 0 || busyB != 0) && slow < 0 {
			slow = c11SlowBudget
			if c11StuckScenarios >= 3 {
				slow = 0
			}
			c11StuckScenarios++
		}
		rec := append([]string{oi(errc), oi(busy), oi(busyB), oi(int64(cache.Shm.GetBNumber())), oi(frecs)}, payload...)
		out = append(out, oi(int64(len(rec))))
		out = append(out, rec...)
	}
	return out
}
