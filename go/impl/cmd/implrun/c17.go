package main

import (
	"fmt"
	"os"

	"github.com/Ptt-official-app/go-pttbbs/types"
)

// C17: the two conversions of package types, with the tables loaded the way the package's own
// initialisation does it for a process started in the repository root (types.SetIsTest("main"):
// ./types/uao250-*.big5.txt, then initBig5). With VERIF_C17_FRESH set the tables are left as a new process
// has them (empty) and ops 10/11/12 go through the start-up path themselves (c17init.go, c17start.go).
func init() {
	register("C17", &propDriver{
		setup: func() {
			repo := os.Getenv("VERIF_REPO")
			if repo == "" {
				repo = "/repo"
			}
			if err := os.Chdir(repo); err != nil {
				fmt.Fprintln(os.Stderr, "C17: chdir:", err)
				os.Exit(2)
			}
			if os.Getenv("VERIF_C17_FRESH") != "" {
				return // ops 10/11 (c17init.go): the scenario itself initialises the tables, in this fresh process
			}
			types.SetIsTest("main")
		},
		run: func(args [][]string) []string {
			switch ai(args[0][0]) {
			case 1: // Big5ToUtf8(bytes) -> bytes of the returned string
				return okb([]byte(types.Big5ToUtf8(ab(args[1]))))
			case 2: // Utf8ToBig5(string(bytes)) -> bytes
				return okb(types.Utf8ToBig5(string(ab(args[1]))))
			case 10: // init history, then conversions on the resulting tables (fresh process only)
				return c17InitScenario(args)
			case 11: // init history, then ptttype.InitConfig steps: BBSNAME / BBSNAME_BIG5 (fresh process only)
				return c17BBSNameScenario(args)
			case 12: // whole start-ups (time zone, linked table paths), then conversions (fresh process only; c17start.go)
				return c17StartScenario(args)
			case 13: // the conversions from several goroutines of one process at once (c17conc.go)
				return c17Concurrent(args)
			}
			return []string{"9"}
		},
	})
}
