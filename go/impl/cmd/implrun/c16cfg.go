package main

// C16 — the secrets in force. The theorems of Props/C16.v about wrong-kind tokens have the premise
// "the three secrets are pairwise distinct"; this file makes the premise observable for every way the
// server is configured: package defaults, api.InitConfig() after viper has read an ini file (the step
// initgin.InitAllConfig performs for package api), and — in the sacrificial driver "C16cfg", which has
// no BBS environment to protect — the whole initgin.InitAllConfig(file) exactly as main() calls it.
// After a (re)configuration the forger (c16Forge) signs with the secrets then in force, and op 9
// presents tokens issued by the server's own Create*Token functions.

import (
	"bytes"
	"crypto/hmac"
	"crypto/sha256"
	"crypto/sha512"
	"hash"
	"os"
	"path/filepath"
	"strings"
	"time"

	"github.com/Ptt-official-app/go-pttbbs/api"
	"github.com/Ptt-official-app/go-pttbbs/bbs"
	"github.com/Ptt-official-app/go-pttbbs/initgin"
	"github.com/spf13/viper"
)

type c16Saved struct {
	issuer, guest, claimType        string
	secret, emailSecret, refreshSec []byte
	ts, emailTS, refreshTS          int
	dur, emailDur, refreshDur       time.Duration
}

func c16Save() c16Saved {
	return c16Saved{
		issuer: api.JWT_ISSUER, guest: api.GUEST, claimType: api.REFRESH_JWT_CLAIM_TYPE,
		secret: api.JWT_SECRET, emailSecret: api.EMAIL_JWT_SECRET, refreshSec: api.REFRESH_JWT_SECRET,
		ts: api.JWT_TOKEN_EXPIRE_TS, emailTS: api.EMAIL_JWT_TOKEN_EXPIRE_TS, refreshTS: api.REFRESH_JWT_TOKEN_EXPIRE_TS,
		dur: api.JWT_TOKEN_EXPIRE_DURATION, emailDur: api.EMAIL_JWT_TOKEN_EXPIRE_DURATION, refreshDur: api.REFRESH_JWT_TOKEN_EXPIRE_DURATION,
	}
}

func c16Restore(s c16Saved) {
	viper.Reset()
	api.JWT_ISSUER, api.GUEST, api.REFRESH_JWT_CLAIM_TYPE = s.issuer, s.guest, s.claimType
	api.JWT_SECRET, api.EMAIL_JWT_SECRET, api.REFRESH_JWT_SECRET = s.secret, s.emailSecret, s.refreshSec
	api.JWT_TOKEN_EXPIRE_TS, api.EMAIL_JWT_TOKEN_EXPIRE_TS, api.REFRESH_JWT_TOKEN_EXPIRE_TS = s.ts, s.emailTS, s.refreshTS
	api.JWT_TOKEN_EXPIRE_DURATION, api.EMAIL_JWT_TOKEN_EXPIRE_DURATION, api.REFRESH_JWT_TOKEN_EXPIRE_DURATION = s.dur, s.emailDur, s.refreshDur
}

var c16ForeignSecret = []byte("somebody else's secret")

// two secrets are "the same key" when they are equal as byte strings or indistinguishable as HMAC keys
// (HMAC pads a short key with zero bytes): decided on the MACs of a probe message under HS256/384/512.
func c16SameKey(a, b []byte) bool {
	if bytes.Equal(a, b) {
		return true
	}
	for _, h := range []func() hash.Hash{sha256.New, sha512.New384, sha512.New} {
		ma, mb := hmac.New(h, a), hmac.New(h, b)
		ma.Write([]byte("verif C16 probe"))
		mb.Write([]byte("verif C16 probe"))
		if hmac.Equal(ma.Sum(nil), mb.Sum(nil)) {
			return true
		}
	}
	return false
}

// the state of the secrets in force: non-empty flags (access refresh email), key classes of
// (access refresh email foreign) — the index of the first secret that is the same key —, lengths, lifetimes
func c16SecretState() []string {
	ks := [][]byte{api.JWT_SECRET, api.REFRESH_JWT_SECRET, api.EMAIL_JWT_SECRET, c16ForeignSecret}
	out := []string{}
	for _, k := range ks[:3] {
		out = append(out, obool(len(k) > 0))
	}
	for i := range ks {
		cls := i
		for j := 0; j < i; j++ {
			if c16SameKey(ks[i], ks[j]) {
				cls = j
				break
			}
		}
		out = append(out, oi(int64(cls)))
	}
	for _, k := range ks[:3] {
		out = append(out, oi(int64(len(k))))
	}
	return append(out, oi(int64(api.JWT_TOKEN_EXPIRE_TS)), oi(int64(api.REFRESH_JWT_TOKEN_EXPIRE_TS)))
}

// configure: 0 restore the package defaults; 1 api.InitConfig() after viper read the ini file `path` with the
// same viper calls as initgin.InitAllConfig; 2 initgin.InitAllConfig(basename) in the file's directory (the real
// start-up path; also reconfigures types/ptttype/boardd, hence sacrificial process only); 3 api.InitConfig()
// with nothing configured at all. Result: 0 <loaded> <secret state…>
func (s *c16State) configure(mode int64, path string) []string {
	c16Restore(s.saved)
	loaded := true
	switch mode {
	case 0:
	case 1:
		base := filepath.Base(path)
		parts := strings.Split(base, ".")
		if len(parts) < 2 {
			return []string{"9"}
		}
		viper.SetConfigName(strings.Join(parts[:len(parts)-1], "."))
		viper.SetConfigType(parts[len(parts)-1])
		viper.AddConfigPath(filepath.Dir(path))
		if err := viper.ReadInConfig(); err != nil {
			loaded = false
		} else if err := api.InitConfig(); err != nil {
			loaded = false
		}
	case 2:
		must(os.Chdir(filepath.Dir(path)))
		if err := initgin.InitAllConfig(filepath.Base(path)); err != nil {
			loaded = false
		}
	case 3:
		if err := api.InitConfig(); err != nil {
			loaded = false
		}
	default:
		return []string{"9"}
	}
	if !loaded && mode != 2 { // a failed start-up (mode 2) is reported as far as it got: api.InitConfig() is its first step
		c16Restore(s.saved)
	}
	return append([]string{"0", obool(loaded)}, c16SecretState()...)
}

// issued: spec = [kind user cli eml ctx] (kind 0 access, 1 refresh, 2 e-mail), made by the server's own
// CreateToken / CreateRefreshToken / CreateEmailToken; ver = [verifier vctx]: 1 VerifyJwt(check) 2 VerifyRefreshJwt
// 3 VerifyEmailJwt(vctx) 4 login-required request 6 /token/info with a genuine access token of the same user as caller
// 51 /refresh with it as the refresh token (genuine access token) 52 /refresh with it as the access token (genuine refresh token)
func (s *c16State) issued(spec, ver []string) []string {
	user := bbs.UUserID(c16Users[ai(spec[1])])
	cli := c16Cli[ai(spec[2])]
	var raw string
	var err error
	switch ai(spec[0]) {
	case 0:
		raw, _, err = api.CreateToken(user, cli)
	case 1:
		raw, _, err = api.CreateRefreshToken(user, cli)
	case 2:
		raw, err = api.CreateEmailToken(user, cli, c16Eml[ai(spec[3])], api.EmailTokenContext(c16Ctx[ai(spec[4])]))
	default:
		return []string{"9"}
	}
	if err != nil || raw == "" {
		return []string{"3", "1"}
	}
	strip := func(v []string) []string { return append(v[:3:3], v[4:]...) } // without the expiry (issuer's clock reading)
	switch ai(ver[0]) {
	case 1:
		u, e, cl, err := api.VerifyJwt(raw, true)
		if err != nil {
			return []string{"0", "0"}
		}
		return strip(c16VRes(u, e, cl, "", nil))
	case 2:
		u, e, cl, err := api.VerifyRefreshJwt(raw)
		if err != nil {
			return []string{"0", "0"}
		}
		return strip(c16VRes(u, e, cl, "", nil))
	case 3:
		u, e, cl, em, err := api.VerifyEmailJwt(raw, api.EmailTokenContext(c16Ctx[ai(ver[1])]))
		if err != nil {
			return []string{"0", "0"}
		}
		return strip(c16VRes(u, e, cl, em, nil))
	case 4:
		return []string{"0", s.whoami(raw)}
	case 6:
		caller, _, err := api.CreateToken(user, cli)
		if err != nil {
			return []string{"3", "1"}
		}
		code, out := s.do("POST", api.GET_TOKEN_INFO_R, caller, map[string]string{"token": raw})
		if code != 200 {
			return []string{"0", "0"}
		}
		u, _ := out["user_id"].(string)
		return []string{"0", "1", poolIdx(c16Users, u)}
	case 51, 52:
		a, r := raw, raw
		if ai(ver[0]) == 51 {
			a, _, err = api.CreateToken(user, cli)
		} else {
			r, _, err = api.CreateRefreshToken(user, cli)
		}
		if err != nil {
			return []string{"3", "1"}
		}
		code, out := s.do("POST", api.REFRESH_R, a, map[string]string{"client_info": cli, "refresh_token": r})
		if code != 200 {
			return []string{"0", "0"}
		}
		u, _ := out["user_id"].(string)
		return []string{"0", "1", poolIdx(c16Users, u)}
	}
	return []string{"9"}
}

func init() {
	s := &c16State{cfg: true}
	register("C16cfg", &propDriver{
		setup:    func() { s.setup(false) },
		teardown: func() { c16Restore(s.saved) },
		run:      s.run,
	})
}
