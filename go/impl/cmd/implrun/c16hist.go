package main

// C16 — histories. The property quantifies over every presentation of a token; a verifier that keeps
// state between requests (a table of already verified tokens, a ring of parsed claims, ...) answers a
// presentation from what it saw EARLIER. Op 11 runs a whole history in ONE process: the same tokens are
// presented again and again at every verifier and wrapper, the clock is allowed to pass a token's own
// expiry between two presentations (the driver waits on the server's own clock, types.NowTS), and
// thousands of distinct valid tokens of other sessions are verified in between and presented again.
//
//	11 | kind a b  kind a b ... | token description 0 | token description 1 | ...
//	kind 0: present token a at verifier b          -> acc who exp-now0 cli nb na
//	kind 1: wait until NowTS() > exp of token a    -> 1 0 0 0 nb na
//	kind 2: make a more distinct valid access tokens (each of a user of its own) and present each at verifier b
//	kind 3: present every a-th of the tokens made by kind 2 so far again at verifier b
//	                                               -> bad first got rejected nb na   (bad: answered as another user / with another token's claims;
//	                                                  first: number of the first such token, got: number of the user it was answered as)
//	verifiers: 1 VerifyJwt(raw,true)  10 VerifyJwt(raw,false)  41 LoginRequiredJSON  42 LoginRequiredPathJSON
//	           43 LoginRequiredQuery  44 LoginRequiredPathQuery  6 /token/info (caller = body = the token)
//
// nb / na are the clock readings before and after the step. Result: 0 now0 <6 numbers per step>.

import (
	"fmt"
	"runtime"
	"strings"
	"sync"
	"time"

	"github.com/Ptt-official-app/go-pttbbs/api"
	"github.com/Ptt-official-app/go-pttbbs/bbs"
	"github.com/Ptt-official-app/go-pttbbs/types"
	"github.com/gin-gonic/gin"
	"github.com/golang-jwt/jwt/v4"
)

type c16Bulk struct {
	raw, user, cli string
	exp            int64
}

func (s *c16State) histRoutes() {
	if s.histReady {
		return
	}
	s.histReady = true
	who := func(remoteAddr string, userID bbs.UUserID, params interface{}, c *gin.Context) (interface{}, error) {
		return map[string]string{"user": string(userID)}, nil
	}
	whoPath := func(remoteAddr string, userID bbs.UUserID, params interface{}, path interface{}, c *gin.Context) (interface{}, error) {
		return map[string]string{"user": string(userID)}, nil
	}
	s.router.POST("/h/json", func(c *gin.Context) { api.LoginRequiredJSON(who, &struct{}{}, c) })
	s.router.GET("/h/query", func(c *gin.Context) { api.LoginRequiredQuery(who, &struct{}{}, c) })
	s.router.POST("/h/pjson/:uid", func(c *gin.Context) {
		api.LoginRequiredPathJSON(whoPath, &struct{}{}, &struct {
			UID string `uri:"uid"`
		}{}, c)
	})
	s.router.GET("/h/pquery/:uid", func(c *gin.Context) {
		api.LoginRequiredPathQuery(whoPath, &struct{}{}, &struct {
			UID string `uri:"uid"`
		}{}, c)
	})
}

// one presentation of a raw token: accepted?, user, expiry and client info as far as the verifier returns them
func (s *c16State) histPresent(v int64, raw string) (acc bool, user string, exp int64, cli string, ok bool) {
	route := func(method, path string) (bool, string, int64, string, bool) {
		code, out := s.do(method, path, raw, map[string]string{})
		u, _ := out["user"].(string)
		if code != 200 {
			return false, "", 0, "", false
		}
		return u != api.GUEST, u, 0, "", true
	}
	switch v {
	case 1, 10:
		u, e, cl, err := api.VerifyJwt(raw, v == 1)
		if err != nil {
			return false, "", 0, "", true
		}
		return true, string(u), int64(e), cl, true
	case 41:
		return route("POST", "/h/json")
	case 42:
		return route("POST", "/h/pjson/x")
	case 43:
		return route("GET", "/h/query")
	case 44:
		return route("GET", "/h/pquery/x")
	case 6:
		code, out := s.do("POST", api.GET_TOKEN_INFO_R, raw, map[string]string{"token": raw})
		if code != 200 {
			return false, "", 0, "", true
		}
		u, _ := out["user_id"].(string)
		return true, u, 0, "", true
	}
	return false, "", 0, "", false
}

func (s *c16State) history(args [][]string) []string {
	s.histRoutes()
	now0 := int64(types.NowTS())
	steps := args[1]
	if len(steps)%3 != 0 {
		return []string{"9"}
	}
	raws := make([]string, 0, len(args)-2)
	exps := make([]int64, 0, len(args)-2)
	for _, d := range args[2:] {
		if len(d) != 18 {
			return []string{"9"}
		}
		raws = append(raws, c16Forge(d, now0))
		if ai(d[0]) != 0 && ai(d[6]) == 2 {
			exps = append(exps, now0+ai(d[7]))
		} else {
			exps = append(exps, -1)
		}
	}
	var bulk []c16Bulk
	out := []string{"0", oi(now0)}
	checkBulk := func(v int64, b *c16Bulk) (bool, string) {
		acc, u, e, cl, ok := s.histPresent(v, b.raw)
		if !ok {
			return false, "?"
		}
		if !acc {
			return false, api.GUEST
		}
		if u != b.user {
			return false, u
		}
		if (v == 1 || v == 10) && (e != b.exp || cl != b.cli) {
			return false, u + "/claims-of-another-token"
		}
		return true, u
	}
	serialOf := func(u string) int64 {
		var n int64
		if strings.HasPrefix(u, "w") {
			if _, err := fmt.Sscanf(u[1:], "%d", &n); err == nil {
				return n
			}
		}
		if u == api.GUEST {
			return -2
		}
		return -1
	}
	for i := 0; i < len(steps); i += 3 {
		kind, a, b := ai(steps[i]), ai(steps[i+1]), ai(steps[i+2])
		nb := int64(types.NowTS())
		var r []string
		switch kind {
		case 0:
			if a < 0 || int(a) >= len(raws) {
				return []string{"9"}
			}
			acc, u, e, cl, ok := s.histPresent(b, raws[a])
			if !ok {
				return []string{"9"}
			}
			eo := int64(0)
			if acc && (b == 1 || b == 10) {
				eo = e - now0
			}
			r = []string{obool(acc), poolIdx(c16Users, u), oi(eo), poolIdx(c16Cli, cl)}
			if !acc {
				r = []string{"0", "1", "0", "0"}
			}
		case 1:
			if a < 0 || int(a) >= len(raws) || exps[a] < 0 {
				return []string{"9"}
			}
			for int64(types.NowTS()) <= exps[a] {
				time.Sleep(20 * time.Millisecond)
			}
			r = []string{"1", "0", "0", "0"}
		case 2, 3, 5: // 5 = like 3, but 8 goroutines of this process present their share of the tokens at the same time
			bad, first, got, rej := int64(0), int64(-1), int64(0), int64(0)
			var jmu sync.Mutex
			judge := func(k int) {
				if ok, u := checkBulk(b, &bulk[k]); !ok {
					jmu.Lock()
					defer jmu.Unlock()
					if u == api.GUEST || u == "?" { // a genuine token refused: not what the property forbids, reported apart
						rej++
						return
					}
					if bad == 0 {
						first, got = int64(k), serialOf(strings.SplitN(u, "/", 2)[0])
					}
					bad++
				}
			}
			if kind == 2 {
				for n := int64(0); n < a; n++ {
					k := len(bulk)
					nb := c16Bulk{user: fmt.Sprintf("w%06d", k), cli: fmt.Sprintf("c%06d", k), exp: now0 + 3600 + int64(k)}
					nb.raw, _ = jwt.NewWithClaims(jwt.SigningMethodHS256, jwt.MapClaims{"sub": nb.user, "cli": nb.cli, "exp": nb.exp}).SignedString(api.JWT_SECRET)
					bulk = append(bulk, nb)
					judge(k)
				}
			} else if kind == 3 {
				if a < 1 {
					return []string{"9"}
				}
				for k := 0; k < len(bulk); k += int(a) {
					judge(k)
				}
			} else {
				if a < 1 {
					return []string{"9"}
				}
				const G = 8
				if runtime.GOMAXPROCS(0) < 4 {
					runtime.GOMAXPROCS(4)
				}
				var wg sync.WaitGroup
				start := make(chan struct{})
				for g := 0; g < G; g++ {
					wg.Add(1)
					go func(g int) {
						defer wg.Done()
						<-start
						for k := g * int(a); k < len(bulk); k += G * int(a) {
							judge(k)
						}
					}(g)
				}
				close(start)
				wg.Wait()
			}
			r = []string{oi(bad), oi(first), oi(got), oi(rej)}
		default:
			return []string{"9"}
		}
		na := int64(types.NowTS())
		out = append(out, r...)
		out = append(out, oi(nb), oi(na))
	}
	return out
}
