package main

// C18: coverage-guided fuzzing of the byte-string helpers (thorough tier of checks/C18.py:
// go test -tags verif -run '^$' -fuzz FuzzC18 -fuzztime Ns ./cmd/implrun).
// A panic or a failed predicate is reported as a line "C18FUZZ <kind> case=<wire case line> ..." which the
// check turns into a replay for ./check C18 --replay.

import (
	"bufio"
	"bytes"
	"fmt"
	"io"
	"strconv"
	"strings"
	"testing"
	"testing/iotest"

	"github.com/Ptt-official-app/go-pttbbs/cmbbs"
	"github.com/Ptt-official-app/go-pttbbs/cmsys"
	"github.com/Ptt-official-app/go-pttbbs/ptt"
	"github.com/Ptt-official-app/go-pttbbs/ptttype"
	"github.com/Ptt-official-app/go-pttbbs/types"
)

func fzToks(b []byte) string {
	s := make([]string, len(b))
	for i, c := range b {
		s[i] = strconv.Itoa(int(c))
	}
	return strings.Join(s, " ")
}

func fzExact(b []byte) []byte {
	out := make([]byte, len(b))
	copy(out, b)
	return out[:len(out):len(out)]
}

func fzPrefix(b []byte) []byte {
	if i := bytes.IndexByte(b, 0); i >= 0 {
		return b[:i]
	}
	return b
}

func fzSgn(x int) int {
	if x > 0 {
		return 1
	}
	if x < 0 {
		return -1
	}
	return 0
}

func fzStatus(b []byte) int { // 0 complete, 1 ends in a lead byte, 2 in a trail byte
	st := 0
	for _, c := range b {
		if st == 1 {
			st = 2
		} else if c >= 0x80 {
			st = 1
		} else {
			st = 0
		}
	}
	return st
}

func fz(t *testing.T, line string, f func() string) {
	defer func() {
		if r := recover(); r != nil {
			t.Fatalf("C18FUZZ panic case=%s what=%v", line, r)
		}
	}()
	if msg := f(); msg != "" {
		t.Fatalf("C18FUZZ pred case=%s what=%s", line, msg)
	}
}

func FuzzC18(f *testing.F) {
	seeds := [][2]string{
		{"", ""}, {"\n", ""}, {"\x1b[", "a"}, {"\x1b[1;3", ";"}, {"a\x1b[1;31mb\x1b[2Jc\x1b7d", "m"}, {"\xa4\xa4\xa4", "\xa4"},
		{"Re: Fw: [\xc2\xe0\xbf\xfd] \xa4\xa4", "re:"}, {"a\r\n\r\nb\r", "\r"}, {"abc\x00def", "c\x00"}, {"[\xef\xbf\xbd\xfe\xa4\xa4]x", ""},
		{"\x1b[1A\x1b[;H\x1b[0m", "A"}, {"a b  ", " "}, {"\x00", "\x00"}, {"SYSOP", "sysop"},
		{"SYSOP\n\nguest\nteemocogs-123456789\nlast\n", "\x19\x00\x00"}, {"0123456789abcdefXYZ\r\nnext", "\x10\x10\x01"},
	}
	for _, s := range seeds {
		f.Add([]byte(s[0]), []byte(s[1]))
	}
	f.Fuzz(func(t *testing.T, a0, b0 []byte) {
		if len(a0) > 300 || len(b0) > 300 {
			return
		}
		A, B := fzToks(a0), fzToks(b0)
		pa, pb := fzPrefix(a0), fzPrefix(b0)
		// ReadLine until EOF
		fz(t, "6|"+A, func() string {
			r := bufio.NewReader(bytes.NewReader(fzExact(a0)))
			n := 0
			for {
				line, err := types.ReadLine(r)
				if err != nil {
					break
				}
				if bytes.IndexByte(line, '\n') >= 0 {
					return "a line contains LF"
				}
				n++
				if n > len(a0)+1 {
					return "more lines than bytes"
				}
			}
			want := bytes.Count(a0, []byte{'\n'})
			if len(a0) > 0 && a0[len(a0)-1] != '\n' {
				want++
			}
			if n != want {
				return fmt.Sprintf("%d lines, expected %d", n, want)
			}
			return ""
		})
		// ReadLine over a reader that fails once with a non-EOF error somewhere in the stream (b0 picks where, how the
		// bytes are cut into Reads and how the error is delivered): a caller looping on err == nil gets exactly the
		// complete lines in front of the error, then that error
		if len(b0) >= 3 {
			pos := int(b0[0]) % (len(a0) + 1)
			chunk, mode := int(b0[1])%40, int(b0[2])%5
			ev := make([]int64, 0, len(a0)+1)
			evs := make([]string, 0, len(a0)+1)
			for i, c := range a0 {
				if i == pos {
					ev = append(ev, 257)
					evs = append(evs, "257")
				}
				ev = append(ev, int64(c))
				evs = append(evs, strconv.Itoa(int(c)))
			}
			if pos == len(a0) {
				ev = append(ev, 257)
				evs = append(evs, "257")
			}
			chunks := ""
			if chunk > 0 {
				chunks = strconv.Itoa(chunk)
			}
			fz(t, fmt.Sprintf("26|%s|%d|%s|16 %d", strings.Join(evs, " "), bytes.Count(a0, []byte{'\n'})+4, chunks, mode), func() string {
				er := &c18EvReader{ev: ev, withErr: mode == 1}
				if chunk > 0 {
					er.chunks = []int64{int64(chunk)}
				}
				var rd io.Reader = er
				switch mode {
				case 2:
					rd = iotest.OneByteReader(er)
				case 3:
					rd = iotest.HalfReader(er)
				case 4:
					rd = iotest.DataErrReader(er)
				}
				br := bufio.NewReaderSize(rd, 16)
				whole := a0[:pos]
				whole = whole[:bytes.LastIndexByte(whole, '\n')+1]
				want := bytes.Split(whole, []byte{'\n'})
				want = want[:len(want)-1]
				for i := 0; ; i++ {
					line, err := types.ReadLine(br)
					if err != nil {
						if err != c18ErrIO {
							return fmt.Sprintf("the read error came back as %v", err)
						}
						if i != len(want) {
							return fmt.Sprintf("%d lines before the read error, expected %d", i, len(want))
						}
						return ""
					}
					if i >= len(want) {
						return fmt.Sprintf("%q returned with a nil error: not a complete line in front of the read error", line)
					}
					if !bytes.Equal(line, bytes.TrimSuffix(want[i], []byte{'\r'})) {
						return fmt.Sprintf("line %d is %q, expected %q", i+1, line, want[i])
					}
				}
			})
		}
		// StripAnsi
		for flag := 0; flag < 3; flag++ {
			fz(t, fmt.Sprintf("13|%s|%d", A, flag), func() string {
				out := cmsys.StripAnsi(fzExact(a0), cmsys.StripAnsiFlag(flag))
				if len(out) > len(a0) {
					return "output longer than input"
				}
				if flag == 0 {
					if bytes.IndexByte(out, 0x1b) >= 0 {
						return "ESC survives strip-all"
					}
					if again := cmsys.StripAnsi(fzExact(out), cmsys.StripAnsiFlag(0)); !bytes.Equal(again, out) {
						return "strip-all is not idempotent"
					}
				} else {
					for i, c := range out {
						if c == 0x1b && (i+2 >= len(out) || out[i+1] != '[') {
							return "kept ESC does not start a complete CSI sequence"
						}
					}
				}
				return ""
			})
		}
		// DBCS helpers
		fz(t, "7|"+A, func() string {
			arr := fzExact(a0)
			r := types.TrimDBCS(arr)
			if len(r) > len(pa) || len(r)+1 < len(pa) || !bytes.Equal(r, pa[:len(r)]) {
				return "not the prefix or the prefix less one byte"
			}
			if fzStatus(r) == 1 || (fzStatus(pa) != 1 && len(r) != len(pa)) {
				return "cuts a complete character / leaves a dangling lead byte"
			}
			return ""
		})
		fz(t, "15|"+A, func() string {
			r := cmsys.DBCSSafeTrim(fzExact(a0))
			if len(r) > len(a0) || len(r)+1 < len(a0) || !bytes.Equal(r, a0[:len(r)]) {
				return "not the input or the input less one byte"
			}
			if fzStatus(r) == 1 || (fzStatus(a0) != 1 && len(r) != len(a0)) {
				return "cuts a complete character / leaves a dangling lead byte"
			}
			return ""
		})
		pos := len(b0) - 1
		fz(t, fmt.Sprintf("16|%s|%d", A, pos), func() string {
			st := int(cmsys.DBCSStatus(fzExact(a0), pos))
			k := pos + 1
			if k > len(a0) {
				k = len(a0)
			}
			if k < 0 {
				k = 0
			}
			if st != fzStatus(a0[:k]) {
				return fmt.Sprintf("status %d, parity says %d", st, fzStatus(a0[:k]))
			}
			return ""
		})
		fz(t, "12|"+A, func() string {
			once := append([]byte{}, cmsys.StripNoneBig5(fzExact(a0))...)
			twice := cmsys.StripNoneBig5(fzExact(once))
			if !bytes.Equal(once, twice) {
				return "not a fixed point on its own output"
			}
			return ""
		})
		fz(t, "18|"+A, func() string {
			title := &ptttype.Title_t{}
			copy(title[:], a0)
			ty, nt := cmbbs.SubjectEx(title)
			p := fzPrefix(title[:])
			if len(nt) > len(p) || !bytes.Equal(nt, p[len(p)-len(nt):]) {
				return "not a suffix of the title"
			}
			if fzStatus(p[:len(p)-len(nt)]) == 1 {
				return "cut after a lead byte"
			}
			if (ty == ptttype.SUBJECT_NORMAL) != (len(nt) == len(p)) {
				return "type does not reflect a stripped prefix"
			}
			return ""
		})
		fz(t, "19|"+A, func() string {
			if out := ptt.StripANSIMoveCmd(fzExact(a0)); len(out) != len(a0) {
				return "length changed"
			}
			return ""
		})
		fz(t, "14|"+A, func() string {
			r := cmsys.Trim(fzExact(a0))
			if !bytes.Equal(r, bytes.TrimRight(pa, " ")) {
				return "not the prefix without trailing blanks"
			}
			return ""
		})
		// binary helpers
		fz(t, "20|"+A+"|"+B, func() string {
			if fzSgn(types.Cstrcmp(fzExact(a0), fzExact(b0))) != bytes.Compare(pa, pb) {
				return "sign differs from strcmp of the prefixes"
			}
			return ""
		})
		fz(t, "21|"+A+"|"+B, func() string {
			la, lb := fzLower(pa), fzLower(pb)
			if fzSgn(types.Cstrcasecmp(fzExact(a0), fzExact(b0))) != bytes.Compare(la, lb) {
				return "sign differs from strcasecmp of the prefixes"
			}
			return ""
		})
		fz(t, "22|"+A+"|"+B, func() string {
			got := types.Cstrstr(fzExact(a0), fzExact(b0))
			if bytes.IndexByte(b0, 0) < 0 && !(len(b0) == 0 && len(pa) == 0) && got != bytes.Index(pa, b0) {
				return fmt.Sprintf("%d, strstr gives %d", got, bytes.Index(pa, b0))
			}
			return ""
		})
		fz(t, "25|"+A+"|"+B, func() string {
			first, rest := types.CstrTokenR(fzExact(a0), fzExact(b0))
			if len(first)+len(rest) > len(a0) || !bytes.Equal(first, a0[:len(first)]) {
				return "first is not a prefix"
			}
			for _, c := range first {
				if c == 0 || bytes.IndexByte(b0, c) >= 0 {
					return "first contains a stop byte"
				}
			}
			return ""
		})
		fz(t, "8|"+A, func() string {
			h := uint32(33554467)
			for _, c := range pa {
				if c >= 'a' && c <= 'z' {
					c -= 32
				}
				h ^= uint32(c)
				h *= 0x01000193
			}
			if uint32(cmsys.StringHash(fzExact(a0))) != h || uint32(cmsys.StringHashWithHashBits(fzExact(a0))) != h%(1<<ptttype.HASH_BITS) {
				return "not FNV-1a of the upper-cased prefix"
			}
			return ""
		})
	})
}

// byte-wise ASCII lower-casing (bytes.ToLower / bytes.Map would decode the bytes as UTF-8)
func fzLower(b []byte) []byte {
	out := make([]byte, len(b))
	for i, c := range b {
		if c >= 'A' && c <= 'Z' {
			c += 32
		}
		out[i] = c
	}
	return out
}
