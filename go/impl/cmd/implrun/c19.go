package main

// C19 — favourites: drives ptt/fav (NewFavRaw, AddBoard/AddLine/AddFolder, Save, Load) in a scratch
// BBSHOME (no shared memory needed). The crash sweep re-executes this binary as a child process with
// VERIF_CRASH_AT=k, which makes the k-th crash point (types.BinaryWrite, before the rename in Save)
// end the process; the parent then reads .fav from disk.

import (
	"errors"
	"io"
	"os"
	"os/exec"
	"path/filepath"
	"sort"
	"strconv"
	"strings"
	"time"

	"github.com/Ptt-official-app/go-pttbbs/ptt/fav"
	"github.com/Ptt-official-app/go-pttbbs/ptttype"
	"github.com/Ptt-official-app/go-pttbbs/types"
	"github.com/sirupsen/logrus"
)

var (
	c19Root    string
	c19OwnRoot bool
	c19UserDir string
	c19UID     = &ptttype.UserID_t{'t', 'e', 's', 't', 'e', 'r'}
)

const c19T0 = 1600000000 // mtime given to the "old" .fav

func c19ErrCode(err error) int {
	switch {
	case errors.Is(err, fav.ErrInvalidFavRecord):
		return 1
	case errors.Is(err, fav.ErrInvalidFavType):
		return 2
	case errors.Is(err, fav.ErrInvalidFavFolder):
		return 3
	case errors.Is(err, fav.ErrInvalidFavBoard):
		return 4
	case errors.Is(err, fav.ErrInvalidFavLine):
		return 5
	case errors.Is(err, io.EOF):
		return 6
	case errors.Is(err, io.ErrUnexpectedEOF):
		return 7
	case errors.Is(err, fav.ErrInvalidFav4Record):
		return 8
	}
	return 9
}

func c19Setup() {
	logrus.SetLevel(logrus.PanicLevel)
	logrus.SetOutput(io.Discard)
	c19Root = os.Getenv("VERIF_C19_DIR")
	if c19Root == "" {
		d, err := os.MkdirTemp("", "verifc19")
		must(err)
		c19Root = d
		c19OwnRoot = true
	}
	ptttype.SetBBSHOME(c19Root)
	c19UserDir = filepath.Join(c19Root, "home", "t", "tester")
	must(os.MkdirAll(c19UserDir, 0o755))
	if os.Getenv("VERIF_C19_CHILD") != "" {
		c19Child()
	}
}

func c19Teardown() {
	if c19OwnRoot {
		os.RemoveAll(c19Root)
	}
}

func c19Clean(keepFav bool) {
	ents, _ := os.ReadDir(c19UserDir)
	for _, e := range ents {
		if keepFav && e.Name() == fav.FAV {
			continue
		}
		os.RemoveAll(filepath.Join(c19UserDir, e.Name()))
	}
}

func c19FavPath() string { return filepath.Join(c19UserDir, fav.FAV) }

func c19Folder(root *fav.FavRaw, path []string) *fav.FavRaw {
	f := root
	for _, p := range path {
		i := ai(p)
		if i < 0 || i >= int64(len(f.Favh)) || f.Favh[i].TheType != fav.FAVT_FOLDER {
			panic("badcase:path")
		}
		f = f.Favh[i].Fp.(*fav.FavFolder).ThisFolder
	}
	return f
}

// runs a constructor script on a fresh tree; returns the tree and the number of API errors
func c19Build(ops [][]string) (*fav.FavRaw, int) {
	root := fav.NewFavRaw(nil)
	nerr := 0
	for _, g := range ops {
		if len(g) < 2 {
			panic("badcase:op")
		}
		code, plen := ai(g[0]), ai(g[1])
		if plen < 0 || int64(len(g)-2) < plen {
			panic("badcase:plen")
		}
		f := c19Folder(root, g[2:2+plen])
		args := g[2+plen:]
		var err error
		switch code {
		case 1:
			if len(args) != 1 {
				panic("badcase:args")
			}
			_, err = f.AddBoard(ptttype.Bid(int32(ai(args[0]))))
		case 2:
			if len(args) != 0 {
				panic("badcase:args")
			}
			_, err = f.AddLine()
		case 3:
			var ft *fav.FavType
			ft, err = f.AddFolder()
			if err == nil {
				copy(ft.Fp.(*fav.FavFolder).Title[:], ab(args))
			}
		case 4:
			if len(args) != 2 {
				panic("badcase:args")
			}
			i := ai(args[0])
			if i < 0 || i >= int64(len(f.Favh)) {
				panic("badcase:idx")
			}
			f.Favh[i].Attr = fav.Favh(int8(ai(args[1])))
		case 5:
			if len(args) != 3 {
				panic("badcase:args")
			}
			i := ai(args[0])
			if i < 0 || i >= int64(len(f.Favh)) || f.Favh[i].TheType != fav.FAVT_BOARD {
				panic("badcase:idx")
			}
			b := f.Favh[i].Fp.(*fav.FavBoard)
			b.LastVisit = int32(ai(args[1]))
			b.Attr = fav.Favh(int8(ai(args[2])))
		default:
			panic("badcase:code")
		}
		if err != nil {
			nerr++
		}
	}
	return root, nerr
}

func c19Dump(f *fav.FavRaw, out []string) []string {
	out = append(out, oi(int64(f.NBoards)), oi(int64(f.NLines)), oi(int64(f.NFolders)), oi(int64(f.LineID)),
		oi(int64(f.FolderID)), oi(int64(f.FavNum)), oi(int64(len(f.Favh))))
	for _, ft := range f.Favh {
		out = append(out, oi(int64(ft.TheType)), oi(int64(ft.Attr)))
		switch ft.TheType {
		case fav.FAVT_BOARD:
			b := ft.Fp.(*fav.FavBoard)
			out = append(out, oi(int64(b.Bid)), oi(int64(b.LastVisit)), oi(int64(b.Attr)))
		case fav.FAVT_LINE:
			out = append(out, oi(int64(ft.Fp.(*fav.FavLine).Lid)))
		case fav.FAVT_FOLDER:
			fd := ft.Fp.(*fav.FavFolder)
			out = append(out, oi(int64(fd.Fid)))
			out = append(out, ob(fd.Title[:])...)
			out = c19Dump(fd.ThisFolder, out)
		}
	}
	return out
}

func c19DumpFile() []string {
	b, err := os.ReadFile(c19FavPath())
	if err != nil {
		return []string{"-1"}
	}
	return append([]string{strconv.Itoa(len(b))}, ob(b)...)
}

func c19SplitSep(gs [][]string) (a, b [][]string) {
	for i, g := range gs {
		if len(g) == 1 && g[0] == "99" {
			return gs[:i], gs[i+1:]
		}
	}
	return gs, nil
}

func c19SaveResult(f *fav.FavRaw, nerr int) []string {
	pre := c19Dump(f, nil) // the tree in memory before Save (cleanup changes it in place)
	ret, err := f.Save(c19UID)
	var out []string
	if err != nil {
		out = []string{"3", strconv.Itoa(c19ErrCode(err)), strconv.Itoa(nerr), strconv.Itoa(len(pre))}
		out = append(out, pre...)
		return append(out, c19DumpFile()...)
	}
	out = []string{"0", strconv.Itoa(nerr), strconv.Itoa(len(pre))}
	out = append(out, pre...)
	out = append(out, c19DumpFile()...)
	return c19Dump(ret, out)
}

func c19PlantOld(img []byte) {
	must(os.WriteFile(c19FavPath(), img, 0o644))
	t := time.Unix(c19T0, 0)
	must(os.Chtimes(c19FavPath(), t, t))
}

// child process of the crash sweep: builds the tree of VERIF_C19_SCRIPT and saves it over the planted old file
func c19Child() {
	code := 0
	func() {
		defer func() {
			if r := recover(); r != nil {
				code = 4
			}
		}()
		var ops [][]string
		if sc := os.Getenv("VERIF_C19_SCRIPT"); sc != "" {
			ops = parseLine(sc)
		}
		if os.Getenv("VERIF_C19_MODE") == "1" {
			// the save inside fav.Load: no .fav, TryFav4Load converts .fav4 and saves
			if _, err := fav.Load(c19UID); err != nil {
				code = 5
			}
			return
		}
		rel := int64(1)
		if r := os.Getenv("VERIF_C19_REL"); r != "" {
			rel = ai(r)
		}
		f, _ := c19Build(ops)
		f.MTime = types.Time4(c19T0 + rel)
		c19Mark(c19MarkBegin)
		if _, err := f.Save(c19UID); err != nil {
			code = 5
		}
		c19Mark(c19MarkEnd)
	}()
	os.Exit(code)
}

const c19Stale = fav.FAV + ".tmp.stale-left-by-a-crash"

// every file of the user's home: count, then (name code, length, bytes) ordered by name code.
// 0 .fav, 1 .fav.tmp.<anything but the planted stale one>, 2 .fav4, 3 the planted stale temp file, 4 .fav.bak, 9 other
func c19DumpDir() []string {
	ents, err := os.ReadDir(c19UserDir)
	must(err)
	type ent struct {
		code int
		name string
	}
	var es []ent
	for _, e := range ents {
		n := e.Name()
		code := 9
		switch {
		case n == fav.FAV:
			code = 0
		case n == c19Stale:
			code = 3
		case strings.HasPrefix(n, fav.FAV+".tmp."):
			code = 1
		case n == fav.FAV4:
			code = 2
		case n == fav.FAV+".bak":
			code = 4
		}
		if !e.Type().IsRegular() {
			code = 9
		}
		es = append(es, ent{code, n})
	}
	sort.SliceStable(es, func(i, j int) bool { return es[i].code < es[j].code })
	out := []string{strconv.Itoa(len(es))}
	for _, e := range es {
		b, _ := os.ReadFile(filepath.Join(c19UserDir, e.name))
		out = append(out, strconv.Itoa(e.code), strconv.Itoa(len(b)))
		out = append(out, ob(b)...)
	}
	return out
}

// fav.Load in this process on the directory as the dead child left it
func c19LoadAfter() (out []string) {
	defer func() {
		if r := recover(); r != nil {
			out = []string{"1"}
		}
	}()
	_, statErr := os.Stat(c19FavPath())
	f, err := fav.Load(c19UID)
	if err != nil {
		return errs(c19ErrCode(err))
	}
	if statErr != nil { // there was no .fav: nil, or the tree converted from .fav4 (not dumped)
		if f == nil {
			return []string{"0", "-1"}
		}
		return []string{"0", "-2"}
	}
	if f == nil {
		return []string{"3", "10"}
	}
	d := c19Dump(f, nil)
	return append([]string{"0", strconv.Itoa(len(d))}, d...)
}

func c19Run(args [][]string) []string {
	switch ai(args[0][0]) {
	case 1: // script -> Save into an empty home
		c19Clean(false)
		f, nerr := c19Build(args[1:])
		return c19SaveResult(f, nerr)
	case 2: // arbitrary bytes as .fav -> Load
		c19Clean(false)
		must(os.WriteFile(c19FavPath(), ab(args[1]), 0o644))
		f, err := fav.Load(c19UID)
		if err != nil {
			return errs(c19ErrCode(err))
		}
		if f == nil {
			return []string{"3", "10"}
		}
		return c19Dump(f, []string{"0"})
	case 3: // [rel] | old script | 99 | new script
		c19Clean(false)
		rel := ai(args[1][0])
		o, n := c19SplitSep(args[2:])
		fo, _ := c19Build(o)
		if _, err := fo.Save(c19UID); err != nil {
			return []string{"9"}
		}
		img, err := os.ReadFile(c19FavPath())
		must(err)
		c19PlantOld(img)
		fn, nerr := c19Build(n)
		fn.MTime = types.Time4(c19T0 + rel)
		return c19SaveResult(fn, nerr)
	case 4: // old script | 99 | new script: crash sweep
		c19Clean(false)
		o, n := c19SplitSep(args[1:])
		fo, _ := c19Build(o)
		if _, err := fo.Save(c19UID); err != nil {
			return []string{"9"}
		}
		old, err := os.ReadFile(c19FavPath())
		must(err)
		c19Build(n) // a malformed script is a bad case here, not in the child
		script := make([]string, len(n))
		for i, g := range n {
			script[i] = strings.Join(g, " ")
		}
		var states [][]byte
		var exists []bool
		for k := 1; ; k++ {
			if k > 200000 {
				return []string{"2"}
			}
			c19Clean(false)
			c19PlantOld(old)
			cmd := exec.Command(os.Args[0], "C19")
			cmd.Env = append(os.Environ(), "VERIF_C19_CHILD=1", "VERIF_C19_DIR="+c19Root,
				"VERIF_CRASH_AT="+strconv.Itoa(k), "VERIF_C19_SCRIPT="+strings.Join(script, "|"))
			err := cmd.Run()
			b, rerr := os.ReadFile(c19FavPath())
			states = append(states, b)
			exists = append(exists, rerr == nil)
			if err == nil {
				break // the save completed: no k-th crash point
			}
			var ee *exec.ExitError
			if !errors.As(err, &ee) || ee.ExitCode() != types.VERIF_CRASH_EXIT_CODE {
				return []string{"1"} // the child panicked or failed
			}
		}
		last := len(states) - 1
		out := []string{"0", strconv.Itoa(last)}
		for i := range states {
			switch {
			case exists[i] && string(states[i]) == string(old):
				out = append(out, "0")
			case exists[i] && exists[last] && string(states[i]) == string(states[last]):
				out = append(out, "1")
			default:
				out = append(out, "2")
			}
		}
		out = append(out, strconv.Itoa(len(old)))
		out = append(out, ob(old)...)
		if !exists[last] {
			return append(out, "-1")
		}
		out = append(out, strconv.Itoa(len(states[last])))
		return append(out, ob(states[last])...)
	case 7: // [hasfav mode rel] | 77 present fav4... | 78 present stale... | old script | 99 | new script
		// crash sweep over any initial home directory; the whole directory and Load afterwards are observed
		if len(args) < 4 || len(args[1]) != 3 || len(args[2]) < 2 || args[2][0] != "77" || len(args[3]) < 2 || args[3][0] != "78" {
			return []string{"9"}
		}
		hasfav, mode, rel := ai(args[1][0]), ai(args[1][1]), ai(args[1][2])
		var fav4b, staleb []byte
		if ai(args[2][1]) != 0 {
			fav4b = ab(args[2][2:])
		}
		if ai(args[3][1]) != 0 {
			staleb = ab(args[3][2:])
		}
		c19Clean(false)
		o, n := c19SplitSep(args[4:])
		var old []byte
		fo, _ := c19Build(o)
		do := c19Dump(fo, nil) // before Save: cleanup changes the tree in place
		if hasfav != 0 {
			if _, err := fo.Save(c19UID); err != nil {
				return []string{"9"}
			}
			var err error
			old, err = os.ReadFile(c19FavPath())
			must(err)
		}
		fn, _ := c19Build(n) // a malformed script is a bad case here, not in the child
		dn := c19Dump(fn, nil)
		script := make([]string, len(n))
		for i, g := range n {
			script[i] = strings.Join(g, " ")
		}
		var body []string
		last := 0
		for k := 1; ; k++ {
			if k > 200000 {
				return []string{"2"}
			}
			c19Clean(false)
			if hasfav != 0 {
				c19PlantOld(old)
			}
			if fav4b != nil {
				must(os.WriteFile(filepath.Join(c19UserDir, fav.FAV4), fav4b, 0o644))
			}
			if staleb != nil {
				must(os.WriteFile(filepath.Join(c19UserDir, c19Stale), staleb, 0o644))
			}
			cmd := exec.Command(os.Args[0], "C19")
			cmd.Env = append(os.Environ(), "VERIF_C19_CHILD=1", "VERIF_C19_DIR="+c19Root,
				"VERIF_CRASH_AT="+strconv.Itoa(k), "VERIF_C19_SCRIPT="+strings.Join(script, "|"),
				"VERIF_C19_MODE="+strconv.FormatInt(mode, 10), "VERIF_C19_REL="+strconv.FormatInt(rel, 10))
			err := cmd.Run()
			body = append(body, c19DumpDir()...)
			body = append(body, c19LoadAfter()...)
			if err == nil {
				last = k - 1
				break // the save completed: no k-th crash point
			}
			var ee *exec.ExitError
			if !errors.As(err, &ee) || ee.ExitCode() != types.VERIF_CRASH_EXIT_CODE {
				return []string{"1"} // the child panicked or failed
			}
		}
		out := []string{"0", strconv.Itoa(len(do))}
		out = append(out, do...)
		out = append(out, strconv.Itoa(len(dn)))
		out = append(out, dn...)
		out = append(out, strconv.Itoa(last))
		return append(out, body...)
	case 9: // kill points at every file-system call of a save (child under ptrace): c19trace.go
		return c19RunTrace(args)
	case 8: // several saves of several users in one process, some refused half-way: c19seq.go
		return c19RunSeq(args)
	case 10: // saves of different users by several goroutines of the process at once: c19conc.go
		return c19RunConc(args)
	case 6: // arbitrary bytes as .fav4 (no .fav) -> Load converts; only crash/no crash is observed
		c19Clean(false)
		must(os.WriteFile(filepath.Join(c19UserDir, fav.FAV4), ab(args[1]), 0o644))
		_, err := fav.Load(c19UID)
		if err != nil {
			return errs(c19ErrCode(err))
		}
		return ok()
	}
	return []string{"9"}
}

func init() {
	register("C19", &propDriver{setup: c19Setup, run: c19Run, teardown: c19Teardown})
}
