package main

// C15, op 6 — registrations on a FULL user table: the expiry sweep (ptt.tryCleanUser -> checkAndExpireAccount ->
// killUser) is part of ptt.SetupNewUser (between the existence check and PasswdLock, outside the semaphore) and frees
// slots by comparing the clock of the registering process (types.NowTS()) with stamps stored by other requests
// (UserecRaw.LastLogin). The other ops keep .fresh recent, so the sweep never runs there. Here .fresh is missing or
// stale, the table holds accounts whose stamps lie before, at and AFTER the clock reading of the sweeping process
// (a request served when the clock was ahead: clock stepped back, another host), and 1..3 real SetupNewUser calls run
// as goroutines of this process, interleaved at the verif schedule points.
//
// case: 6|fresh|ids of the table (length-prefixed, slot 1..)|user level per slot|LastLogin - now per slot (seconds)|
//       ids of the threads|LastLogin - now of each thread's request|schedule (thread numbers)
//   fresh: 0 = .fresh missing, 1 = .fresh two hours old, 2 = .fresh recent (the sweep must not run)
// A release of thread t lets it run to its next schedule point or to its return; a thread that passed the existence
// check is released only while no call is inside the lock (its sweep and its semop then complete before the controller
// goes on, so the run is deterministic); tokens that are not enabled are skipped, and after the schedule the remaining
// calls are completed lowest-thread-first. The effective order is reported.
// result: 0 now0 now1 KEEP_DAYS_REGGED KEEP_DAYS_UNREGGED CLEAN_USER_EXPIRE_RANGE_MIN semval -1 trace (t code v)* -1
//         per thread (errcode uid)* -1 index ids -1 .PASSWDS ids -1 .PASSWDS LastLogin - now0 per slot
//   trace codes: 1 reg.checked, 2 reg.locked, 3 reg.beforeUnlock (v = uid), 4 returned nil, 5 returned error (v = class)

import (
	"encoding/binary"
	"fmt"
	"os"
	"path/filepath"
	"time"
	"unsafe"

	"github.com/Ptt-official-app/go-pttbbs/ptt"
	"github.com/Ptt-official-app/go-pttbbs/ptttype"
	"github.com/Ptt-official-app/go-pttbbs/types"
)

type c15SwEv struct{ t, code, v int }

func c15Sweep(args [][]string) []string {
	if len(args) != 8 || len(args[1]) != 1 {
		return []string{"9"}
	}
	e := c15Env
	fresh := int(ai(args[1][0]))
	tab := c15Dec(args[2])
	ids := c15Dec(args[5])
	n := len(ids)
	if len(tab) > ptttype.MAX_USERS || len(args[3]) != len(tab) || len(args[4]) != len(tab) || len(args[6]) != n || n < 1 || n > 4 {
		return []string{"9"}
	}

	now0 := types.NowTS()
	sz := int(ptttype.USEREC_RAW_SZ)
	buf := make([]byte, sz*ptttype.MAX_USERS)
	offID := int(unsafe.Offsetof(ptttype.USEREC_RAW.UserID))
	offLevel := int(unsafe.Offsetof(ptttype.USEREC_RAW.UserLevel))
	offLast := int(unsafe.Offsetof(ptttype.USEREC_RAW.LastLogin))
	offFirst := int(unsafe.Offsetof(ptttype.USEREC_RAW.FirstLogin))
	for k := range tab {
		if len(tab[k]) == 0 {
			continue
		}
		rec := buf[k*sz : (k+1)*sz]
		binary.LittleEndian.PutUint32(rec, uint32(ptttype.PASSWD_VERSION))
		copy(rec[offID:offID+ptttype.IDLEN], tab[k])
		binary.LittleEndian.PutUint32(rec[offLevel:], uint32(ai(args[3][k])))
		stamp := uint32(int32(int64(now0) + int64(ai(args[4][k]))))
		binary.LittleEndian.PutUint32(rec[offLast:], stamp)
		binary.LittleEndian.PutUint32(rec[offFirst:], stamp)
	}
	must(os.WriteFile(filepath.Join(e.home, ".PASSWDS"), buf, 0o600))
	freshFn := filepath.Join(e.home, ".fresh")
	switch fresh {
	case 0:
		_ = os.Remove(freshFn)
	case 1:
		must(os.WriteFile(freshFn, []byte("old"), 0o600))
		old := time.Now().Add(-2 * time.Hour)
		must(os.Chtimes(freshFn, old, old))
	default:
		must(os.WriteFile(freshFn, []byte(time.Now().String()), 0o600))
	}
	e.reload(false)
	defer func() { _ = os.WriteFile(freshFn, []byte(time.Now().String()), 0o600) }()

	evc := make(chan c15SwEv, 64)
	gates := make([]chan struct{}, n)
	ptt.VerifPointHook = func(name string, user *ptttype.UserecRaw, uid ptttype.UID) {
		if user == nil {
			return
		}
		t := c15TagOf(&user.Nickname)
		if t < 0 || t >= n {
			return
		}
		code := map[string]int{"reg.checked": 1, "reg.locked": 2, "reg.beforeUnlock": 3}[name]
		if code == 0 {
			return
		}
		evc <- c15SwEv{t, code, int(uid)}
		<-gates[t]
	}
	defer func() { ptt.VerifPointHook = nil }()
	for t := 0; t < n; t++ {
		gates[t] = make(chan struct{})
		go func(t int) {
			<-gates[t]
			stamp := types.Time4(int32(int64(now0) + int64(ai(args[6][t]))))
			user := &ptttype.UserecRaw{Version: ptttype.PASSWD_VERSION, UserLevel: ptttype.PERM_DEFAULT, Pager: ptttype.PAGER_ON,
				FirstLogin: stamp, LastLogin: stamp, NumLoginDays: 1}
			copy(user.UserID[:], ids[t])
			copy(user.Nickname[:], c15Tag(t)[:])
			code, v := 4, 0
			func() {
				defer func() {
					if r := recover(); r != nil {
						code, v = 6, 0
					}
				}()
				if err := ptt.SetupNewUser(user); err != nil {
					code, v = 5, c15ErrCode(err)
				}
			}()
			evc <- c15SwEv{t, code, v}
		}(t)
	}

	state := make([]int, n) // 0 not started, 1 at reg.checked, 2 at reg.locked, 3 at reg.beforeUnlock, 4 returned
	res := make([][2]int, n)
	seenUID := make([]int, n)
	trace := []string{}
	hang, crash := false, false
	holder := func() int {
		for t := 0; t < n; t++ {
			if state[t] == 2 || state[t] == 3 {
				return t
			}
		}
		return -1
	}
	enabled := func(t int) bool {
		if t < 0 || t >= n || state[t] == 4 {
			return false
		}
		return state[t] != 1 || holder() < 0
	}
	release := func(t int) {
		gates[t] <- struct{}{}
		select {
		case ev := <-evc:
			if ev.t != t { // cannot happen: every other call is parked at a gate
				crash = true
				return
			}
			trace = append(trace, fmt.Sprint(ev.t), fmt.Sprint(ev.code), fmt.Sprint(ev.v))
			switch ev.code {
			case 1, 2, 3:
				state[t] = ev.code
				if ev.code == 3 {
					seenUID[t] = ev.v
				}
			case 4:
				state[t] = 4
				res[t] = [2]int{0, seenUID[t]}
			case 5:
				state[t] = 4
				res[t] = [2]int{ev.v, 0}
			default:
				state[t] = 4
				crash = true
			}
		case <-time.After(c15Wait(120)):
			hang = true
		}
	}
	for _, s := range args[7] {
		t := int(ai(s))
		if hang || crash {
			break
		}
		if enabled(t) {
			release(t)
		}
	}
	for !hang && !crash {
		t := holder()
		if t < 0 {
			for k := 0; k < n; k++ {
				if enabled(k) {
					t = k
					break
				}
			}
		}
		if t < 0 {
			break
		}
		release(t)
	}
	if hang {
		// the parked goroutines cannot be reclaimed; the shared state is rebuilt by the next case
		return []string{"2"}
	}
	if crash {
		return []string{"1"}
	}
	now1 := types.NowTS()
	out := []string{"0", fmt.Sprint(int64(now0)), fmt.Sprint(int64(now1)), fmt.Sprint(ptttype.KEEP_DAYS_REGGED), fmt.Sprint(ptttype.KEEP_DAYS_UNREGGED),
		fmt.Sprint(ptttype.CLEAN_USER_EXPIRE_RANGE_MIN), fmt.Sprint(c15SemVal()), "-1"}
	out = append(out, trace...)
	out = append(out, "-1")
	for t := 0; t < n; t++ {
		out = append(out, fmt.Sprint(res[t][0]), fmt.Sprint(res[t][1]))
	}
	out = append(out, "-1")
	idx, pwd := c15Tables(e)
	out = append(out, c15Enc(idx)...)
	out = append(out, "-1")
	out = append(out, c15Enc(pwd)...)
	out = append(out, "-1")
	fb, err := os.ReadFile(filepath.Join(e.home, ".PASSWDS"))
	must(err)
	for k := 0; k < ptttype.MAX_USERS; k++ {
		if (k+1)*sz > len(fb) {
			out = append(out, "0")
			continue
		}
		ll := int64(int32(binary.LittleEndian.Uint32(fb[k*sz+offLast:])))
		if len(pwd[k]) == 0 {
			out = append(out, "0")
		} else {
			out = append(out, fmt.Sprint(ll-int64(now0)))
		}
	}
	return out
}
