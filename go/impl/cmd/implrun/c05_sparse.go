package main

// C05, record offsets at and beyond 2^31 / 2^32 bytes: the real functions on SPARSE files (a few KiB on disk, logical
// sizes up to a terabyte). The file is described by its size and the slots (stride-sized, 0-based) that hold bytes; after
// the call the whole file is listed again the same way: the data extents the file system reports (SEEK_DATA/SEEK_HOLE)
// are read, every slot with a non-zero byte is reported with its bytes (trailing zeros trimmed). Everything outside the
// reported extents is a hole and reads as zeros, so the listing is the whole file, not a sample of it.

import (
	"bytes"
	"encoding/binary"
	"io"
	"os"
	"syscall"

	"github.com/Ptt-official-app/go-pttbbs/cmsys"
	"github.com/Ptt-official-app/go-pttbbs/ptt"
	"github.com/Ptt-official-app/go-pttbbs/ptttype"
	"github.com/Ptt-official-app/go-pttbbs/types"
)

const (
	c05SeekData = 3
	c05SeekHole = 4
	c05MaxData  = 64 << 20 // never read more than this much real data back
)

// size, then per non-empty slot: slot index, number of bytes up to the last non-zero one, those bytes
func c05SparseListing(fn string, sz int64) []string {
	f, err := os.Open(fn)
	must(err)
	defer f.Close()
	st, err := f.Stat()
	must(err)
	size := st.Size()
	var slots []string
	nslots := int64(0)
	done := int64(-1) // last slot already looked at
	total := int64(0)
	buf := make([]byte, sz)
	for pos := int64(0); pos < size; {
		a, err := f.Seek(pos, c05SeekData)
		if err != nil {
			if pe, ok := err.(*os.PathError); ok && pe.Err == syscall.ENXIO {
				break // no data after pos
			}
			must(err)
		}
		b, err := f.Seek(a, c05SeekHole)
		must(err)
		if b <= a {
			panic("SEEK_HOLE did not advance")
		}
		total += b - a
		if total > c05MaxData {
			panic("sparse file holds more data than expected (no hole support on this file system?)")
		}
		first, last := a/sz, (b-1)/sz
		if first <= done {
			first = done + 1
		}
		for s := first; s <= last; s++ {
			n := sz
			if s*sz+n > size {
				n = size - s*sz
			}
			if n <= 0 {
				break
			}
			_, err := f.ReadAt(buf[:n], s*sz)
			if err != nil && err != io.EOF {
				must(err)
			}
			t := bytes.TrimRight(buf[:n], "\x00")
			if len(t) > 0 {
				slots = append(slots, oi(s), oi(int64(len(t))))
				slots = append(slots, ob(t)...)
				nslots++
			}
		}
		if last > done {
			done = last
		}
		pos = b
	}
	return append([]string{oi(size), oi(nslots)}, slots...)
}

// op 15: [sz kind idx n desc mtime] [L] data (slot bytes)*
//
//	kind 1 AppendRecord(data = image)            -> 0 idx  size k (slot len bytes)*
//	kind 2 SubstituteRecord(idx 0-based, image)  -> 0 0    size k ...      | 3 code size k ...
//	kind 3 DeleteRecord(idx 0-based, data = tag) -> same
//	kind 4 ModifyDirLite(idx 1-based, data = name, mtime) (stride 128) -> same
//	kind 5 GetRecords(start = idx, n, desc) (stride 128) -> 0 k (aid 128 bytes)* | 3 code
//	kind 6 GetNumRecords -> 0 count
//
// The file is created sparse with logical size L, the given slots are written at slot*sz (64-bit arithmetic here).
func c05Sparse(dir string, args [][]string) []string {
	if len(args) < 4 || len(args)%2 != 0 || len(args[1]) != 6 || len(args[2]) != 1 {
		return []string{"9"}
	}
	h := args[1]
	sz, kind, idx, n, desc, mtime := ai(h[0]), ai(h[1]), ai(h[2]), ai(h[3]), ai(h[4]) != 0, ai(h[5])
	size := ai(args[2][0])
	data := ab(args[3])
	if size < 0 || size > 1<<41 || idx < -(1<<31) || idx >= 1<<31 || n < 0 || n > 4096 {
		return []string{"9"}
	}
	_, stride := c05Record(sz, make([]byte, c05Packed(sz)))
	fn := dir + "/.DIR.sparse"
	os.Remove(fn)
	defer os.Remove(fn)
	f, err := os.OpenFile(fn, os.O_RDWR|os.O_CREATE|os.O_EXCL, 0o600)
	must(err)
	must(f.Truncate(size))
	for k := 4; k+1 < len(args); k += 2 {
		if len(args[k]) != 1 {
			f.Close()
			return []string{"9"}
		}
		slot, bs := ai(args[k][0]), ab(args[k+1])
		if slot < 0 || int64(len(bs)) > sz || slot*sz+int64(len(bs)) > size {
			f.Close()
			return []string{"9"}
		}
		_, err := f.WriteAt(bs, slot*sz)
		must(err)
	}
	must(f.Close())

	var ret int64
	switch kind {
	case 1:
		v, _ := c05Record(sz, data)
		var i ptttype.SortIdx
		i, err = cmsys.AppendRecord(fn, v, stride)
		ret = int64(i)
	case 2:
		v, _ := c05Record(sz, data)
		err = cmsys.SubstituteRecord(fn, v, stride, int32(idx))
	case 3:
		if string(data) != ptttype.FN_SAFEDEL {
			return []string{"9"}
		}
		err = cmsys.DeleteRecord(fn, ptttype.SortIdxInStore(idx), stride)
	case 4:
		if sz != int64(ptttype.FILE_HEADER_RAW_SZ) {
			return []string{"9"}
		}
		name := &ptttype.Filename_t{}
		copy(name[:], data)
		err = ptt.ModifyDirLite(fn, ptttype.SortIdx(idx), name, types.Time4(mtime), nil, nil, nil, 0, nil, 0, 0)
	case 5:
		if sz != int64(ptttype.FILE_HEADER_RAW_SZ) {
			return []string{"9"}
		}
		bid := &ptttype.BoardID_t{'t', 'e', 's', 't'}
		sums, err := cmsys.GetRecords(bid, fn, ptttype.SortIdx(idx), int(n), desc)
		if err != nil {
			return c05Err(err)
		}
		out := ok(oi(int64(len(sums))))
		for _, s := range sums {
			buf := &bytes.Buffer{}
			must(types.BinaryWrite(buf, binary.LittleEndian, s.FileHeaderRaw))
			out = append(out, oi(int64(s.Aid)))
			out = append(out, ob(buf.Bytes())...)
		}
		return out
	case 6:
		return ok(oi(int64(cmsys.GetNumRecords(fn, stride))))
	default:
		return []string{"9"}
	}
	r := []string{"0", oi(ret)}
	if err != nil {
		r = c05Err(err)
	}
	return append(r, c05SparseListing(fn, sz)...)
}
