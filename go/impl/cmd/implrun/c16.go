package main

// C16 — token verification. The driver is a forger that knows all three secrets: from an abstract
// description (algorithm header, signing key, intact or altered, claim set) it builds a real token
// with golang-jwt and presents it to the verifiers of package api, directly and through an
// in-process gin router (login-required wrapper, /refresh, /token/info, change-email, set-id-email).

import (
	"bytes"
	"crypto/hmac"
	"crypto/sha256"
	"encoding/base64"
	"encoding/json"
	"net/http"
	"net/http/httptest"
	"strings"

	"github.com/Ptt-official-app/go-pttbbs/api"
	"github.com/Ptt-official-app/go-pttbbs/bbs"
	"github.com/Ptt-official-app/go-pttbbs/types"
	"github.com/gin-gonic/gin"
	"github.com/golang-jwt/jwt/v4"
)

var (
	c16Users = []string{"", "guest", "Ptt", "test1", "test3", "nobody9"}
	c16Cli   = []string{"", "cliA", "cliB"}
	c16Typ   = []string{"", "refresh", "access"}
	c16Eml   = []string{"", "a@example.com", "x@example.org"}
	c16Ctx   = []string{"", "email", "id_email", "other"}
)

func poolIdx(pool []string, s string) string {
	for i, p := range pool {
		if p == s {
			return oi(int64(i))
		}
	}
	return "-1"
}

// token description on the wire: [present; alg; key; intact; (kind,value) x6 for sub exp cli typ eml ctx; nbf_future; iat_future]
// exp value is an OFFSET from now; kinds: 0 absent, 1 string (pool index), 2 number, 3 the number 0, 4 wrong JSON type
func c16Forge(d []string, now int64) string {
	if ai(d[0]) == 0 {
		return ""
	}
	claims := jwt.MapClaims{}
	put := func(name string, pool []string, k, v string) {
		switch ai(k) {
		case 1:
			claims[name] = pool[ai(v)]
		case 2:
			claims[name] = ai(v)
		case 3:
			claims[name] = 0
		case 4:
			if name == "exp" {
				claims[name] = "soon"
			} else {
				claims[name] = 5
			}
		}
	}
	put("sub", c16Users, d[4], d[5])
	switch ai(d[6]) {
	case 2:
		claims["exp"] = now + ai(d[7])
	case 3:
		claims["exp"] = 0
	case 4:
		claims["exp"] = "soon"
	}
	put("cli", c16Cli, d[8], d[9])
	put("typ", c16Typ, d[10], d[11])
	put("eml", c16Eml, d[12], d[13])
	put("ctx", c16Ctx, d[14], d[15])
	if ai(d[16]) != 0 {
		claims["nbf"] = now + 3600
	}
	if ai(d[17]) != 0 {
		claims["iat"] = now + 3600
	}
	secret := [][]byte{api.JWT_SECRET, api.REFRESH_JWT_SECRET, api.EMAIL_JWT_SECRET, []byte("somebody else's secret")}[ai(d[2])]
	var raw string
	switch ai(d[1]) {
	case 0:
		raw, _ = jwt.NewWithClaims(jwt.SigningMethodHS256, claims).SignedString(secret)
	case 1:
		raw, _ = jwt.NewWithClaims(jwt.SigningMethodHS384, claims).SignedString(secret)
	case 2:
		raw, _ = jwt.NewWithClaims(jwt.SigningMethodHS512, claims).SignedString(secret)
	case 3:
		raw, _ = jwt.NewWithClaims(jwt.SigningMethodNone, claims).SignedString(jwt.UnsafeAllowNoneSignatureType)
	default:
		// an RS256 header over an HMAC-SHA256 "signature" made with the server's secret (algorithm confusion)
		h := base64.RawURLEncoding.EncodeToString([]byte(`{"alg":"RS256","typ":"JWT"}`))
		pb, _ := json.Marshal(claims)
		p := base64.RawURLEncoding.EncodeToString(pb)
		m := hmac.New(sha256.New, secret)
		m.Write([]byte(h + "." + p))
		raw = h + "." + p + "." + base64.RawURLEncoding.EncodeToString(m.Sum(nil))
	}
	parts := strings.Split(raw, ".")
	switch ai(d[3]) {
	case 1: // intact
	case 0: // payload replaced (one more claim), old signature kept
		claims["x"] = 1
		pb, _ := json.Marshal(claims)
		parts[1] = base64.RawURLEncoding.EncodeToString(pb)
	case 2: // first signature character altered
		if len(parts[2]) > 0 {
			c := byte('A')
			if parts[2][0] == 'A' {
				c = 'B'
			}
			parts[2] = string(c) + parts[2][1:]
		} else {
			parts[2] = "AAAA"
		}
	case 3: // signature dropped
		parts[2] = ""
	case 4: // header swapped for another HMAC method, signature kept
		hb, _ := base64.RawURLEncoding.DecodeString(parts[0])
		hs := string(hb)
		if strings.Contains(hs, "HS256") {
			hs = strings.Replace(hs, "HS256", "HS512", 1)
		} else {
			hs = strings.Replace(strings.Replace(strings.Replace(hs, "HS384", "HS256", 1), "HS512", "HS256", 1), "none", "HS256", 1)
		}
		parts[0] = base64.RawURLEncoding.EncodeToString([]byte(hs))
	}
	return strings.Join(parts, ".")
}

func c16VRes(user bbs.UUserID, exp int, cli string, eml string, err error) []string {
	if err != nil {
		return []string{"0", "0"}
	}
	return []string{"0", "1", poolIdx(c16Users, string(user)), oi(int64(exp)), poolIdx(c16Cli, cli), poolIdx(c16Eml, eml)}
}

// c16State: one driver process. withEnv = scratch BBSHOME + shared memory (needed by the e-mail routes).
type c16State struct {
	env       *bbsEnv
	router    *gin.Engine
	cfg       bool // the sacrificial "C16cfg" process: may run the real initgin.InitAllConfig
	saved     c16Saved
	histReady bool // routes of the history op (c16hist.go) registered
}

func (s *c16State) do(method, path, auth string, body interface{}) (int, map[string]interface{}) {
	b, _ := json.Marshal(body)
	req := httptest.NewRequest(method, path, bytes.NewReader(b))
	req.Header.Set("Content-Type", "application/json")
	req.Header.Set("Host", "localhost")
	req.Header.Set("X-Forwarded-For", "127.0.0.1")
	if auth != "" {
		req.Header.Set("Authorization", "bearer "+auth)
	}
	w := httptest.NewRecorder()
	s.router.ServeHTTP(w, req)
	out := map[string]interface{}{}
	_ = json.Unmarshal(w.Body.Bytes(), &out)
	return w.Code, out
}

func (s *c16State) setup(withEnv bool) {
	if withEnv {
		s.env = newBBSEnv("api", true)
	}
	s.saved = c16Save()
	gin.SetMode(gin.ReleaseMode)
	router := gin.New()
	s.router = router
	router.POST("/whoami", func(c *gin.Context) {
		params := &struct{}{}
		api.LoginRequiredJSON(func(remoteAddr string, userID bbs.UUserID, params interface{}, c *gin.Context) (interface{}, error) {
			return map[string]string{"user": string(userID)}, nil
		}, params, c)
	})
	router.POST("/whoami/:uid", func(c *gin.Context) {
		params := &struct{}{}
		path := &struct {
			UID string `uri:"uid"`
		}{}
		api.LoginRequiredPathJSON(func(remoteAddr string, userID bbs.UUserID, params interface{}, path interface{}, c *gin.Context) (interface{}, error) {
			return map[string]string{"user": string(userID)}, nil
		}, params, path, c)
	})
	router.POST(api.REFRESH_R, api.RefreshWrapper)
	router.POST(api.GET_TOKEN_INFO_R, api.GetTokenInfoWrapper)
	router.POST(api.CHANGE_EMAIL_R, api.ChangeEmailWrapper)
	router.POST(api.SET_ID_EMAIL_R, api.SetIDEmailWrapper)
}

func (s *c16State) teardown() {
	c16Restore(s.saved)
	if s.env != nil {
		s.env.close()
	}
}

// whoami: effective user of a login-required request (both wrappers must agree); "-1" otherwise
func (s *c16State) whoami(raw string) string {
	code, out := s.do("POST", "/whoami", raw, map[string]string{})
	code2, out2 := s.do("POST", "/whoami/x", raw, map[string]string{})
	u, _ := out["user"].(string)
	u2, _ := out2["user"].(string)
	if code != 200 || code2 != 200 || u != u2 {
		return "-1"
	}
	return poolIdx(c16Users, u)
}

func (s *c16State) run(args [][]string) []string {
	now := int64(types.NowTS())
	nows := oi(now)
	switch ai(args[0][0]) {
	case 1: // VerifyJwt(raw, check)
		raw := c16Forge(args[2], now)
		u, e, cl, err := api.VerifyJwt(raw, ai(args[1][0]) != 0)
		return append(c16VRes(u, e, cl, "", err), nows)
	case 2:
		raw := c16Forge(args[2], now)
		u, e, cl, err := api.VerifyRefreshJwt(raw)
		return append(c16VRes(u, e, cl, "", err), nows)
	case 3:
		raw := c16Forge(args[2], now)
		u, e, cl, em, err := api.VerifyEmailJwt(raw, api.EmailTokenContext(c16Ctx[ai(args[1][0])]))
		return append(c16VRes(u, e, cl, em, err), nows)
	case 4: // effective user of a login-required request (both wrappers must agree)
		raw := c16Forge(args[2], now)
		return []string{"0", s.whoami(raw), nows}
	case 5: // /refresh
		a := c16Forge(args[2], now)
		r := c16Forge(args[3], now)
		code, out := s.do("POST", api.REFRESH_R, a, map[string]string{"client_info": c16Cli[ai(args[1][0])], "refresh_token": r})
		if code != 200 {
			return []string{"0", "0", nows}
		}
		u, _ := out["user_id"].(string)
		// the issued tokens must be for that user
		at, _ := out["access_token"].(string)
		rt, _ := out["refresh_token"].(string)
		u1, _, _, e1 := api.VerifyJwt(at, true)
		u2, _, _, e2 := api.VerifyRefreshJwt(rt)
		if e1 != nil || e2 != nil || string(u1) != u || string(u2) != u {
			return []string{"0", "1", "-2", nows}
		}
		return []string{"0", "1", poolIdx(c16Users, u), nows}
	case 6: // /token/info
		a := c16Forge(args[2], now)
		b := c16Forge(args[3], now)
		code, out := s.do("POST", api.GET_TOKEN_INFO_R, a, map[string]string{"token": b})
		if code != 200 {
			return []string{"0", "0", nows}
		}
		u, _ := out["user_id"].(string)
		return []string{"0", "1", poolIdx(c16Users, u), nows}
	case 7: // change e-mail (route 0) / set id e-mail (route 1)
		if s.env == nil {
			return []string{"9"}
		}
		a := c16Forge(args[2], now)
		e := c16Forge(args[3], now)
		pathUser := c16Users[ai(args[1][0])]
		var code int
		var out map[string]interface{}
		if ai(args[1][1]) == 0 {
			code, out = s.do("POST", strings.Replace(api.CHANGE_EMAIL_R, ":uid", pathUser, 1), a, map[string]string{"email_token": e})
		} else {
			code, out = s.do("POST", strings.Replace(api.SET_ID_EMAIL_R, ":uid", pathUser, 1), a, map[string]interface{}{"email_token": e, "is_set": true})
		}
		if code == 200 {
			em, _ := out["email"].(string)
			return []string{"0", "1", poolIdx(c16Eml, em), nows}
		}
		if code == 403 || code == 401 {
			return []string{"0", "0", nows}
		}
		return []string{"0", "1", "-1", nows} // passed the token guard, failed later (e.g. e-mail not acceptable as id e-mail)
	case 8: // (re)configure package api in this process: [mode] | path bytes
		return append(s.configure(ai(args[1][0]), string(ab(args[2]))), nows)
	case 9: // a token ISSUED BY THE SERVER'S OWN functions presented to a verifier: [kind user cli eml ctx] | [verifier vctx]
		return append(s.issued(args[1], args[2]), nows)
	case 11: // a whole history in this one process: repeated presentations, the clock passing an expiry, thousands of tokens (c16hist.go)
		return s.history(args)
	case 10: // the whole start-up configuration path, initgin.InitAllConfig(file), as main does — sacrificial process only
		if !s.cfg {
			return []string{"9"}
		}
		return append(s.configure(2, string(ab(args[1]))), nows)
	}
	return []string{"9"}
}

func init() {
	s := &c16State{}
	register("C16", &propDriver{
		setup:    func() { s.setup(true) },
		teardown: s.teardown,
		run:      s.run,
	})
}

var _ = http.StatusOK
