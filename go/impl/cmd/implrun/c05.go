package main

// C05 driver: every case carries the whole file; the real function is run on a scratch copy and the whole
// file is returned, so that the check can compare every byte after every step. Records are real values of
// the record types in use (decoded from the given image), the stride is the constant the callers pass.

import (
	"bytes"
	"encoding/binary"
	"os"
	"path/filepath"
	"syscall"

	"github.com/Ptt-official-app/go-pttbbs/cache"
	"github.com/Ptt-official-app/go-pttbbs/cmbbs"
	"github.com/Ptt-official-app/go-pttbbs/cmsys"
	"github.com/Ptt-official-app/go-pttbbs/ptt"
	"github.com/Ptt-official-app/go-pttbbs/ptttype"
	"github.com/Ptt-official-app/go-pttbbs/types"
)

// the record value for a stride, decoded from its image
func c05Record(sz int64, img []byte) (interface{}, uintptr) {
	var v interface{}
	var stride uintptr
	switch sz {
	case int64(ptt.POSTLOG_SZ):
		v, stride = &ptt.PostLog{}, ptt.POSTLOG_SZ
	case int64(ptttype.FILE_HEADER_RAW_SZ):
		v, stride = &ptttype.FileHeaderRaw{}, ptttype.FILE_HEADER_RAW_SZ
	case int64(ptttype.BOARD_HEADER_RAW_SZ):
		v, stride = &ptttype.BoardHeaderRaw{}, ptttype.BOARD_HEADER_RAW_SZ
	case int64(ptttype.USEREC_RAW_SZ):
		v, stride = &ptttype.UserecRaw{}, ptttype.USEREC_RAW_SZ
	default:
		panic("badcase:stride")
	}
	if len(img) != binary.Size(v) {
		panic("badcase:image length")
	}
	if err := types.BinaryRead(bytes.NewReader(img), binary.LittleEndian, v); err != nil {
		panic("badcase:image")
	}
	return v, stride
}

func c05Err(err error) []string {
	if err == ptttype.ErrInvalidIdx {
		return errs(1)
	}
	if err == cache.ErrInvalidUID {
		return errs(3)
	}
	if pe, ok := err.(*os.PathError); ok && pe.Err == syscall.EINVAL {
		return errs(2)
	}
	return errs(99)
}

func init() {
	var dir string
	var env *bbsEnv
	register("C05", &propDriver{
		setup: func() {
			d, err := os.MkdirTemp("", "verifrec")
			must(err)
			dir = d
		},
		teardown: func() {
			if env != nil {
				env.close()
			}
			os.RemoveAll(dir)
		},
		run: func(args [][]string) []string {
			fn := filepath.Join(dir, ".DIR")
			put := func(b []byte) { must(os.WriteFile(fn, b, 0o600)) }
			get := func() []byte { b, err := os.ReadFile(fn); must(err); return b }
			switch ai(args[0][0]) {
			case 1:
				v, stride := c05Record(ai(args[1][0]), ab(args[2]))
				put(ab(args[3]))
				idx, err := cmsys.AppendRecord(fn, v, stride)
				if err != nil {
					return c05Err(err)
				}
				return append(ok(oi(int64(idx))), ob(get())...)
			case 2:
				v, stride := c05Record(ai(args[1][0]), ab(args[2]))
				put(ab(args[3]))
				if err := cmsys.SubstituteRecord(fn, v, stride, int32(ai(args[1][1]))); err != nil {
					return c05Err(err)
				}
				return okb(get())
			case 3:
				_, stride := c05Record(ai(args[1][0]), make([]byte, c05Packed(ai(args[1][0]))))
				if string(ab(args[2])) != ptttype.FN_SAFEDEL {
					return []string{"9"}
				}
				put(ab(args[3]))
				if err := cmsys.DeleteRecord(fn, ptttype.SortIdxInStore(ai(args[1][1])), stride); err != nil {
					return c05Err(err)
				}
				return okb(get())
			case 4:
				a := args[1]
				name := &ptttype.Filename_t{}
				copy(name[:], ab(args[2]))
				var title *ptttype.Title_t
				if ai(a[5]) != 0 {
					title = &ptttype.Title_t{}
					copy(title[:], ab(args[3]))
				}
				var owner *ptttype.Owner_t
				if ai(a[6]) != 0 {
					owner = &ptttype.Owner_t{}
					copy(owner[:], ab(args[4]))
				}
				var date *ptttype.Date_t
				if ai(a[7]) != 0 {
					date = &ptttype.Date_t{}
					copy(date[:], ab(args[5]))
				}
				var multi []byte
				if ai(a[8]) != 0 {
					multi = ab(args[6])
				}
				put(ab(args[7]))
				err := ptt.ModifyDirLite(fn, ptttype.SortIdx(ai(a[0])), name, types.Time4(ai(a[1])), title, owner, date, int8(ai(a[2])), multi,
					ptttype.FileMode(ai(a[3])), ptttype.FileMode(ai(a[4])))
				if err != nil {
					r := c05Err(err)
					if !bytes.Equal(get(), ab(args[7])) {
						r = append(r, "1") // refused, yet the file changed
					}
					return r
				}
				return okb(get())
			case 5:
				put(ab(args[2]))
				bid := &ptttype.BoardID_t{'t', 'e', 's', 't'}
				sums, err := cmsys.GetRecords(bid, fn, ptttype.SortIdx(ai(args[1][0])), int(ai(args[1][1])), ai(args[1][2]) != 0)
				if err != nil {
					return c05Err(err)
				}
				out := ok(oi(int64(len(sums))))
				for _, s := range sums {
					buf := &bytes.Buffer{}
					must(types.BinaryWrite(buf, binary.LittleEndian, s.FileHeaderRaw))
					out = append(out, oi(int64(s.Aid)))
					out = append(out, ob(buf.Bytes())...)
				}
				return out
			case 6:
				_, stride := c05Record(ai(args[1][0]), make([]byte, c05Packed(ai(args[1][0]))))
				put(ab(args[2]))
				return ok(oi(int64(cmsys.GetNumRecords(fn, stride))))
			case 7:
				if env == nil {
					env = newBBSEnv("ptt", false)
				}
				if ai(args[1][0]) != int64(ptttype.USEREC_RAW_SZ) || ai(args[1][1]) != int64(ptttype.MAX_USERS) {
					return []string{"9"}
				}
				v, _ := c05Record(ai(args[1][0]), ab(args[2]))
				must(os.WriteFile(ptttype.FN_PASSWD, ab(args[3]), 0o600))
				if err := cmbbs.PasswdUpdate(ptttype.UID(ai(args[1][2])), v.(*ptttype.UserecRaw)); err != nil {
					return c05Err(err)
				}
				b, err := os.ReadFile(ptttype.FN_PASSWD)
				must(err)
				return okb(b)
			case 10: // the delete tag the build uses
				return okb([]byte(ptttype.FN_SAFEDEL))
			}
			return []string{"9"}
		},
	})
}

func c05Packed(sz int64) int {
	switch sz {
	case int64(ptt.POSTLOG_SZ):
		return binary.Size(&ptt.PostLog{})
	case int64(ptttype.FILE_HEADER_RAW_SZ):
		return binary.Size(&ptttype.FileHeaderRaw{})
	case int64(ptttype.BOARD_HEADER_RAW_SZ):
		return binary.Size(&ptttype.BoardHeaderRaw{})
	case int64(ptttype.USEREC_RAW_SZ):
		return binary.Size(&ptttype.UserecRaw{})
	}
	panic("badcase:stride")
}
