package main

// C05 driver: every case carries the whole file; the real function is run on a scratch copy and the whole
// file is returned, so that the check can compare every byte after every step. Records are real values of
// the record types in use (decoded from the given image), the stride is the constant the callers pass.

import (
	"bytes"
	"crypto/sha256"
	"encoding/binary"
	"fmt"
	"math/big"
	"os"
	"os/signal"
	"path/filepath"
	"syscall"

	"github.com/Ptt-official-app/go-pttbbs/cache"
	"github.com/Ptt-official-app/go-pttbbs/cmbbs"
	"github.com/Ptt-official-app/go-pttbbs/cmsys"
	"github.com/Ptt-official-app/go-pttbbs/ptt"
	"github.com/Ptt-official-app/go-pttbbs/ptttype"
	"github.com/Ptt-official-app/go-pttbbs/types"
)

// the record value for a stride, decoded from its image
func c05Record(sz int64, img []byte) (interface{}, uintptr) {
	var v interface{}
	var stride uintptr
	switch sz {
	case int64(ptt.POSTLOG_SZ):
		v, stride = &ptt.PostLog{}, ptt.POSTLOG_SZ
	case int64(ptttype.FILE_HEADER_RAW_SZ):
		v, stride = &ptttype.FileHeaderRaw{}, ptttype.FILE_HEADER_RAW_SZ
	case int64(ptttype.BOARD_HEADER_RAW_SZ):
		v, stride = &ptttype.BoardHeaderRaw{}, ptttype.BOARD_HEADER_RAW_SZ
	case int64(ptttype.USEREC_RAW_SZ):
		v, stride = &ptttype.UserecRaw{}, ptttype.USEREC_RAW_SZ
	default:
		panic("badcase:stride")
	}
	if len(img) != binary.Size(v) {
		panic("badcase:image length")
	}
	if err := types.BinaryRead(bytes.NewReader(img), binary.LittleEndian, v); err != nil {
		panic("badcase:image")
	}
	return v, stride
}

func c05Err(err error) []string {
	if err == ptttype.ErrInvalidIdx {
		return errs(1)
	}
	if err == cache.ErrInvalidUID {
		return errs(3)
	}
	if pe, ok := err.(*os.PathError); ok && pe.Err == syscall.EINVAL {
		return errs(2)
	}
	if pe, ok := err.(*os.PathError); ok && (pe.Err == syscall.EFBIG || pe.Err == syscall.ENOSPC) {
		return errs(4) // write(2) refused by the OS
	}
	return errs(99)
}

func init() {
	var dir string
	var env *bbsEnv
	register("C05", &propDriver{
		setup: func() {
			d, err := os.MkdirTemp("", "verifrec")
			must(err)
			dir = d
		},
		teardown: func() {
			if env != nil {
				env.close()
			}
			os.RemoveAll(dir)
		},
		run: func(args [][]string) []string {
			fn := filepath.Join(dir, ".DIR")
			put := func(b []byte) { must(os.WriteFile(fn, b, 0o600)) }
			get := func() []byte { b, err := os.ReadFile(fn); must(err); return b }
			switch ai(args[0][0]) {
			case 1:
				v, stride := c05Record(ai(args[1][0]), ab(args[2]))
				put(ab(args[3]))
				idx, err := cmsys.AppendRecord(fn, v, stride)
				if err != nil {
					return c05Err(err)
				}
				return append(ok(oi(int64(idx))), ob(get())...)
			case 2:
				v, stride := c05Record(ai(args[1][0]), ab(args[2]))
				put(ab(args[3]))
				if err := cmsys.SubstituteRecord(fn, v, stride, int32(ai(args[1][1]))); err != nil {
					return c05Err(err)
				}
				return okb(get())
			case 3:
				_, stride := c05Record(ai(args[1][0]), make([]byte, c05Packed(ai(args[1][0]))))
				if string(ab(args[2])) != ptttype.FN_SAFEDEL {
					return []string{"9"}
				}
				put(ab(args[3]))
				if err := cmsys.DeleteRecord(fn, ptttype.SortIdxInStore(ai(args[1][1])), stride); err != nil {
					return c05Err(err)
				}
				return okb(get())
			case 4:
				a := args[1]
				name := &ptttype.Filename_t{}
				copy(name[:], ab(args[2]))
				var title *ptttype.Title_t
				if ai(a[5]) != 0 {
					title = &ptttype.Title_t{}
					copy(title[:], ab(args[3]))
				}
				var owner *ptttype.Owner_t
				if ai(a[6]) != 0 {
					owner = &ptttype.Owner_t{}
					copy(owner[:], ab(args[4]))
				}
				var date *ptttype.Date_t
				if ai(a[7]) != 0 {
					date = &ptttype.Date_t{}
					copy(date[:], ab(args[5]))
				}
				var multi []byte
				if ai(a[8]) != 0 {
					multi = ab(args[6])
				}
				put(ab(args[7]))
				err := ptt.ModifyDirLite(fn, ptttype.SortIdx(ai(a[0])), name, types.Time4(ai(a[1])), title, owner, date, int8(ai(a[2])), multi,
					ptttype.FileMode(ai(a[3])), ptttype.FileMode(ai(a[4])))
				if err != nil {
					r := c05Err(err)
					if !bytes.Equal(get(), ab(args[7])) {
						r = append(r, "1") // refused, yet the file changed
					}
					return r
				}
				return okb(get())
			case 5:
				put(ab(args[2]))
				bid := &ptttype.BoardID_t{'t', 'e', 's', 't'}
				sums, err := cmsys.GetRecords(bid, fn, ptttype.SortIdx(ai(args[1][0])), int(ai(args[1][1])), ai(args[1][2]) != 0)
				if err != nil {
					return c05Err(err)
				}
				out := ok(oi(int64(len(sums))))
				for _, s := range sums {
					buf := &bytes.Buffer{}
					must(types.BinaryWrite(buf, binary.LittleEndian, s.FileHeaderRaw))
					out = append(out, oi(int64(s.Aid)))
					out = append(out, ob(buf.Bytes())...)
				}
				return out
			case 6:
				_, stride := c05Record(ai(args[1][0]), make([]byte, c05Packed(ai(args[1][0]))))
				put(ab(args[2]))
				return ok(oi(int64(cmsys.GetNumRecords(fn, stride))))
			case 7:
				if env == nil {
					env = newBBSEnv("ptt", false)
				}
				if ai(args[1][0]) != int64(ptttype.USEREC_RAW_SZ) || ai(args[1][1]) != int64(ptttype.MAX_USERS) {
					return []string{"9"}
				}
				v, _ := c05Record(ai(args[1][0]), ab(args[2]))
				must(os.WriteFile(ptttype.FN_PASSWD, ab(args[3]), 0o600))
				if err := cmbbs.PasswdUpdate(ptttype.UID(ai(args[1][2])), v.(*ptttype.UserecRaw)); err != nil {
					return c05Err(err)
				}
				b, err := os.ReadFile(ptttype.FN_PASSWD)
				must(err)
				return okb(b)
			case 12:
				return c05History(fn, args)
			case 13, 14:
				return c05Window(filepath.Join(dir, ".DIR.big"), ai(args[0][0]) == 14, args)
			case 15:
				return c05Sparse(dir, args)
			case 16: // histories on different files by several goroutines of the process at once (c05conc.go)
				return c05Concurrent(dir, args)
			case 10: // the delete tag the build uses
				return okb([]byte(ptttype.FN_SAFEDEL))
			}
			return []string{"9"}
		},
	})
}

func c05Packed(sz int64) int {
	switch sz {
	case int64(ptt.POSTLOG_SZ):
		return binary.Size(&ptt.PostLog{})
	case int64(ptttype.FILE_HEADER_RAW_SZ):
		return binary.Size(&ptttype.FileHeaderRaw{})
	case int64(ptttype.BOARD_HEADER_RAW_SZ):
		return binary.Size(&ptttype.BoardHeaderRaw{})
	case int64(ptttype.USEREC_RAW_SZ):
		return binary.Size(&ptttype.UserecRaw{})
	}
	panic("badcase:stride")
}

// ------------------------------------------------------------------ histories in one process, refused writes interleaved

// c05Refusing runs f while the OS refuses every write(2) to a regular file of this process: RLIMIT_FSIZE = 0 with
// SIGXFSZ ignored makes write return EFBIG (open, O_CREATE, flock, range locks, lseek and reads still work). Private to
// this process - no shared device node such as /dev/full whose flock other processes could hold.
func c05Refusing(f func()) {
	signal.Ignore(syscall.SIGXFSZ)
	var old syscall.Rlimit
	must(syscall.Getrlimit(syscall.RLIMIT_FSIZE, &old))
	must(syscall.Setrlimit(syscall.RLIMIT_FSIZE, &syscall.Rlimit{Cur: 0, Max: old.Max}))
	defer func() { must(syscall.Setrlimit(syscall.RLIMIT_FSIZE, &old)) }()
	f()
}

// op 12: [sz] f (hdr data)*  with hdr = [kind refused idx mtime recommend enable disable]; kind 1 append (data = record
// image), 2 substitute at idx (0-based), 3 delete-mark idx (0-based, data = tag), 4 ModifyDirLite idx (1-based, data =
// name). refused 0: the call is made on the scratch file; 1: on a copy of the scratch file ("another file") while the OS
// refuses writes; 2: on the scratch file itself while the OS refuses writes. All in this process, in order.
// Per step: status code |file| file-bytes (the scratch file after the step).
func c05History(fn string, args [][]string) []string {
	if len(args) < 3 || len(args)%2 != 1 {
		return []string{"9"}
	}
	sz := ai(args[1][0])
	must(os.WriteFile(fn, ab(args[2]), 0o600))
	out := []string{"0"}
	for k := 3; k+1 < len(args); k += 2 {
		h, data := args[k], args[k+1]
		if len(h) != 7 {
			return []string{"9"}
		}
		kind, refused, idx := ai(h[0]), ai(h[1]), ai(h[2])
		target := fn
		if refused == 1 {
			target = fn + ".other"
			b, err := os.ReadFile(fn)
			must(err)
			must(os.WriteFile(target, b, 0o600))
		}
		var call func() (int64, error)
		switch kind {
		case 1:
			v, stride := c05Record(sz, ab(data))
			call = func() (int64, error) { i, err := cmsys.AppendRecord(target, v, stride); return int64(i), err }
		case 2:
			v, stride := c05Record(sz, ab(data))
			call = func() (int64, error) { return 0, cmsys.SubstituteRecord(target, v, stride, int32(idx)) }
		case 3:
			_, stride := c05Record(sz, make([]byte, c05Packed(sz)))
			if string(ab(data)) != ptttype.FN_SAFEDEL {
				return []string{"9"}
			}
			call = func() (int64, error) { return 0, cmsys.DeleteRecord(target, ptttype.SortIdxInStore(idx), stride) }
		case 4:
			if sz != int64(ptttype.FILE_HEADER_RAW_SZ) {
				return []string{"9"}
			}
			name := &ptttype.Filename_t{}
			copy(name[:], ab(data))
			call = func() (int64, error) {
				return 0, ptt.ModifyDirLite(target, ptttype.SortIdx(idx), name, types.Time4(ai(h[3])), nil, nil, nil, int8(ai(h[4])), nil,
					ptttype.FileMode(ai(h[5])), ptttype.FileMode(ai(h[6])))
			}
		default:
			return []string{"9"}
		}
		var code int64
		var err error
		if refused != 0 {
			c05Refusing(func() { code, err = call() })
			if refused == 1 { // the copy must be as untouched as the original
				a, e1 := os.ReadFile(fn)
				b, e2 := os.ReadFile(target)
				must(e1)
				must(e2)
				if !bytes.Equal(a, b) {
					return []string{"0", "-1", "-1", "0"} // never a legal step result: the refused write changed its file
				}
				os.Remove(target)
			}
		} else {
			code, err = call()
		}
		r := []string{"0", oi(code)}
		if err != nil {
			r = c05Err(err)
		}
		b, rerr := os.ReadFile(fn)
		must(rerr)
		out = append(out, r...)
		out = append(out, oi(int64(len(b))))
		out = append(out, ob(b)...)
	}
	return out
}

// ------------------------------------------------------------------ windows on large generated files

// record i (1-based) of the generated .DIR: name "M.%010d.A.%03X" (1500000000+i, i&0xfff) NUL-padded to 28 bytes,
// then the first 100 bytes of sha256("seed/i/0") .. sha256("seed/i/3"). checks/C05.py builds the same file.
func c05GenRecord(seed, i int64) []byte {
	rec := make([]byte, 0, 160)
	name := []byte(fmt.Sprintf("M.%010d.A.%03X", 1500000000+i, i&0xfff))
	rec = append(rec, name...)
	rec = append(rec, make([]byte, 28-len(name))...)
	for j := 0; j < 4; j++ {
		h := sha256.Sum256([]byte(fmt.Sprintf("%d/%d/%d", seed, i, j)))
		rec = append(rec, h[:]...)
	}
	return rec[:128]
}

var c05BigKey string // "<cnt>/<seed>" of the file currently on disk

// op 13: [cnt start n desc] [seed] -> 0 k idx*            (the Aid of every summary GetRecords returned)
// op 14: same                      -> 0 k first last H     H = sha256 over (idx as 8 bytes LE, the 128 bytes of the
//
//	returned header) of every summary in order, as a decimal number
func c05Window(fn string, digest bool, args [][]string) []string {
	if len(args) != 3 || len(args[1]) != 4 || len(args[2]) != 1 {
		return []string{"9"}
	}
	cnt, start, n, desc, seed := ai(args[1][0]), ai(args[1][1]), ai(args[1][2]), ai(args[1][3]) != 0, ai(args[2][0])
	if cnt < 0 || cnt > 4000000 || n > 8000000 {
		return []string{"9"}
	}
	key := fmt.Sprintf("%d/%d", cnt, seed)
	if key != c05BigKey {
		buf := make([]byte, 0, cnt*128)
		for i := int64(1); i <= cnt; i++ {
			buf = append(buf, c05GenRecord(seed, i)...)
		}
		must(os.WriteFile(fn, buf, 0o600))
		c05BigKey = key
	}
	bid := &ptttype.BoardID_t{'t', 'e', 's', 't'}
	sums, err := cmsys.GetRecords(bid, fn, ptttype.SortIdx(start), int(n), desc)
	if err != nil {
		return c05Err(err)
	}
	out := ok(oi(int64(len(sums))))
	if !digest {
		for _, s := range sums {
			out = append(out, oi(int64(s.Aid)))
		}
		return out
	}
	h := sha256.New()
	first, last := int64(0), int64(0)
	for k, s := range sums {
		if k == 0 {
			first = int64(s.Aid)
		}
		last = int64(s.Aid)
		var ib [8]byte
		binary.LittleEndian.PutUint64(ib[:], uint64(int64(s.Aid)))
		h.Write(ib[:])
		must(binary.Write(h, binary.LittleEndian, s.FileHeaderRaw))
	}
	return append(out, oi(first), oi(last), new(big.Int).SetBytes(h.Sum(nil)).String())
}
