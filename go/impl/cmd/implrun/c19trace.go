package main

// C19 — kill points at SYSTEM-CALL granularity (op 9).
//
// The crash points of op 4 / op 7 are calls placed in the source (before every BinaryWrite, before the rename
// step); whatever a step does inside — a helper that unlinks the target before it renames, a copy instead of
// a rename — lies between two of them. Here the child that performs the save runs under ptrace(2): the parent
// sees every system call of every thread of the child at its entry, decodes the ones that can change a file
// system (open for writing / creating, write, rename*, unlink*, truncate, link, mkdir, ...), and
//   - records them (kind, the names in the user's home, byte count): the system-call list of the save as the
//     kernel saw it, compared with save_syscalls of the model;
//   - in the k-th run kills the child (SIGKILL) at the entry of the k-th such call, which the kernel then does
//     not execute: the directory is exactly as k-1 calls left it. Every file of the home and fav.Load
//     afterwards are dumped, as in op 7.
// Nothing depends on time: the child is stopped by the kernel at each call and continues only when told to.
// The window is delimited by two marker calls of the child (access(2) of a name that does not exist).

import (
	"fmt"
	"os"
	"os/exec"
	"path/filepath"
	"runtime"
	"strconv"
	"strings"
	"syscall"
	"unsafe"

	"github.com/Ptt-official-app/go-pttbbs/ptt/fav"
)

const (
	c19MarkBegin = "/verif-c19-save-begins"
	c19MarkEnd   = "/verif-c19-save-ends"
)

// called by the child around the save when VERIF_C19_MARK is set
func c19Mark(name string) {
	if os.Getenv("VERIF_C19_MARK") != "" {
		_ = syscall.Access(name, 0)
	}
}

type c19Sys struct {
	kind int // 1 create/open for writing, 2 write, 3 rename, 4 unlink/rmdir, 5 truncate, 6 link/symlink, 7 mkdir, 8 other
	a, b string
	n    int64
	nr   uint64
}

type c19SysInfo struct {
	op   uint8
	_    [3]uint8
	arch uint32
	ip   uint64
	sp   uint64
	nr   uint64
	args [6]uint64
	_    [16]byte
}

func c19PeekString(pid int, addr uint64) string {
	var out []byte
	buf := make([]byte, 8)
	for len(out) < 4096 {
		n, err := syscall.PtracePeekData(pid, uintptr(addr)+uintptr(len(out)), buf)
		if err != nil || n == 0 {
			break
		}
		for i := 0; i < n; i++ {
			if buf[i] == 0 {
				return string(append(out, buf[:i]...))
			}
		}
		out = append(out, buf[:n]...)
	}
	return string(out)
}

func c19FdPath(pid int, fd uint64) string {
	p, err := os.Readlink(fmt.Sprintf("/proc/%d/fd/%d", pid, int32(fd)))
	if err != nil {
		return ""
	}
	return p
}

// path argument relative to a directory fd
func c19AtPath(pid int, dirfd uint64, addr uint64) string {
	p := c19PeekString(pid, addr)
	if strings.HasPrefix(p, "/") {
		return p
	}
	if int32(dirfd) == -100 { // AT_FDCWD
		cwd, _ := os.Readlink(fmt.Sprintf("/proc/%d/cwd", pid))
		return filepath.Join(cwd, p)
	}
	return filepath.Join(c19FdPath(pid, dirfd), p)
}

// decodes a system call at its entry; ok = it can change a file system
func c19Decode(pid int, nr uint64, a [6]uint64) (s c19Sys, marker string, ok bool) {
	const wflags = syscall.O_WRONLY | syscall.O_RDWR | syscall.O_CREAT | syscall.O_TRUNC | syscall.O_APPEND
	s.nr = nr
	switch nr {
	case 21: // access
		return s, c19PeekString(pid, a[0]), false
	case 269, 439: // faccessat, faccessat2
		return s, c19PeekString(pid, a[1]), false
	case 2: // open
		if a[1]&wflags == 0 {
			return s, "", false
		}
		s.kind, s.a = 1, c19AtPath(pid, ^uint64(99), a[0])
	case 85: // creat
		s.kind, s.a = 1, c19AtPath(pid, ^uint64(99), a[0])
	case 257, 437: // openat, openat2
		fl := a[2]
		if nr == 437 {
			b := make([]byte, 8)
			if _, err := syscall.PtracePeekData(pid, uintptr(a[2]), b); err == nil {
				fl = *(*uint64)(unsafe.Pointer(&b[0]))
			}
		}
		if fl&wflags == 0 {
			return s, "", false
		}
		s.kind, s.a = 1, c19AtPath(pid, a[0], a[1])
	case 1, 18, 20, 296, 328: // write, pwrite64, writev, pwritev, pwritev2
		p := c19FdPath(pid, a[0])
		if !strings.HasPrefix(p, "/") { // pipe, socket, eventfd: not a file
			return s, "", false
		}
		s.kind, s.a, s.n = 2, p, int64(a[2])
	case 82: // rename
		s.kind, s.a, s.b = 3, c19AtPath(pid, ^uint64(99), a[0]), c19AtPath(pid, ^uint64(99), a[1])
	case 264, 316: // renameat, renameat2
		s.kind, s.a, s.b = 3, c19AtPath(pid, a[0], a[1]), c19AtPath(pid, a[2], a[3])
	case 87, 84: // unlink, rmdir
		s.kind, s.a = 4, c19AtPath(pid, ^uint64(99), a[0])
	case 263: // unlinkat
		s.kind, s.a = 4, c19AtPath(pid, a[0], a[1])
	case 76: // truncate
		s.kind, s.a, s.n = 5, c19AtPath(pid, ^uint64(99), a[0]), int64(a[1])
	case 77, 285: // ftruncate, fallocate
		s.kind, s.a, s.n = 5, c19FdPath(pid, a[0]), int64(a[1])
	case 86, 88: // link, symlink
		s.kind, s.a, s.b = 6, c19AtPath(pid, ^uint64(99), a[0]), c19AtPath(pid, ^uint64(99), a[1])
	case 265: // linkat
		s.kind, s.a, s.b = 6, c19AtPath(pid, a[0], a[1]), c19AtPath(pid, a[2], a[3])
	case 266: // symlinkat
		s.kind, s.a, s.b = 6, c19PeekString(pid, a[0]), c19AtPath(pid, a[1], a[2])
	case 83: // mkdir
		s.kind, s.a = 7, c19AtPath(pid, ^uint64(99), a[0])
	case 258: // mkdirat
		s.kind, s.a = 7, c19AtPath(pid, a[0], a[1])
	case 40, 326: // sendfile, copy_file_range
		s.kind, s.a = 8, c19FdPath(pid, a[map[uint64]int{40: 0, 326: 2}[nr]])
	case 90, 92, 94, 132, 235, 261: // chmod, chown, lchown, utime, utimes, futimesat
		s.kind, s.a = 8, c19AtPath(pid, ^uint64(99), a[0])
	case 91, 93: // fchmod, fchown
		s.kind, s.a = 8, c19FdPath(pid, a[0])
	case 268, 260, 280: // fchmodat, fchownat, utimensat
		s.kind, s.a = 8, c19AtPath(pid, a[0], a[1])
	default:
		return s, "", false
	}
	return s, "", true
}

// runs the child under ptrace; killAt = k > 0: SIGKILL at the entry of the k-th file-system call between the markers.
// killed: the k-th call was reached. status: exit code of a child that ran to its end (-1: died otherwise).
func c19Traced(env []string, killAt int) (trace []c19Sys, killed bool, status int, err error) {
	type res struct {
		trace  []c19Sys
		killed bool
		status int
		err    error
	}
	ch := make(chan res, 1)
	go func() {
		runtime.LockOSThread()
		defer runtime.UnlockOSThread()
		var r res
		r.status = -1
		defer func() { ch <- r }()
		cmd := exec.Command(os.Args[0], "C19")
		cmd.Env = env
		cmd.SysProcAttr = &syscall.SysProcAttr{Ptrace: true}
		if r.err = cmd.Start(); r.err != nil {
			return
		}
		pid := cmd.Process.Pid
		defer cmd.Process.Release()
		var ws syscall.WaitStatus
		if _, r.err = syscall.Wait4(pid, &ws, syscall.WALL, nil); r.err != nil {
			return
		}
		const opts = syscall.PTRACE_O_TRACECLONE | syscall.PTRACE_O_TRACEFORK | syscall.PTRACE_O_TRACEVFORK |
			syscall.PTRACE_O_TRACESYSGOOD | 0x100000 /* PTRACE_O_EXITKILL */
		if r.err = syscall.PtraceSetOptions(pid, opts); r.err != nil {
			syscall.Kill(pid, syscall.SIGKILL)
			syscall.Wait4(pid, &ws, syscall.WALL, nil)
			return
		}
		if r.err = syscall.PtraceSyscall(pid, 0); r.err != nil {
			return
		}
		seen := map[int]bool{pid: true}
		active, count := false, 0
		for steps := 0; ; steps++ {
			wpid, werr := syscall.Wait4(-1, &ws, syscall.WALL, nil)
			if werr == syscall.EINTR {
				continue
			}
			if werr != nil { // ECHILD: everything is gone
				return
			}
			if ws.Exited() || ws.Signaled() {
				if wpid == pid {
					if ws.Exited() {
						r.status = ws.ExitStatus()
					}
					// threads left behind are reaped by the kernel with the group leader
					return
				}
				continue
			}
			if !ws.Stopped() {
				continue
			}
			sig := ws.StopSignal()
			switch {
			case sig == syscall.SIGTRAP|0x80:
				var info c19SysInfo
				_, _, e := syscall.Syscall6(syscall.SYS_PTRACE, 0x420e /* PTRACE_GET_SYSCALL_INFO */, uintptr(wpid),
					unsafe.Sizeof(info), uintptr(unsafe.Pointer(&info)), 0, 0)
				if e == 0 && info.op == 1 { // entry
					s, marker, ok := c19Decode(wpid, info.nr, info.args)
					switch {
					case marker == c19MarkBegin:
						active = true
					case marker == c19MarkEnd:
						active = false
					case ok && active:
						count++
						if killAt > 0 && count == killAt {
							r.killed = true
							syscall.Kill(pid, syscall.SIGKILL)
							for {
								p, e2 := syscall.Wait4(-1, &ws, syscall.WALL, nil)
								if e2 == syscall.EINTR {
									continue
								}
								if e2 != nil || (p == pid && (ws.Exited() || ws.Signaled())) {
									return
								}
							}
						}
						r.trace = append(r.trace, s)
					}
				}
				syscall.PtraceSyscall(wpid, 0)
			case sig == syscall.SIGTRAP && ws.TrapCause() > 0: // clone / fork / exec event
				syscall.PtraceSyscall(wpid, 0)
			case sig == syscall.SIGSTOP && !seen[wpid]: // a new thread reports for the first time
				seen[wpid] = true
				syscall.PtraceSyscall(wpid, 0)
			default:
				seen[wpid] = true
				syscall.PtraceSyscall(wpid, int(sig)) // hand the signal to the child
			}
		}
	}()
	r := <-ch
	return r.trace, r.killed, r.status, r.err
}

// name code of a path: the codes of c19DumpDir for entries of the user's home, 9 for anything else
func c19NameCode(p string) int {
	if p == "" {
		return -1
	}
	if filepath.Dir(p) != c19UserDir {
		if p == c19UserDir {
			return 8
		}
		return 9
	}
	n := filepath.Base(p)
	switch {
	case n == fav.FAV:
		return 0
	case n == c19Stale:
		return 3
	case strings.HasPrefix(n, fav.FAV+".tmp."):
		return 1
	case n == fav.FAV4:
		return 2
	case n == fav.FAV+".bak":
		return 4
	}
	return 9
}

// op 9: [hasfav rel] | 77 present fav4... | 78 present stale... | old script | 99 | new script
func c19RunTrace(args [][]string) []string {
	if len(args) < 4 || len(args[1]) != 2 || len(args[2]) < 2 || args[2][0] != "77" || len(args[3]) < 2 || args[3][0] != "78" {
		return []string{"9"}
	}
	hasfav, rel := ai(args[1][0]), ai(args[1][1])
	var fav4b, staleb []byte
	if ai(args[2][1]) != 0 {
		fav4b = ab(args[2][2:])
	}
	if ai(args[3][1]) != 0 {
		staleb = ab(args[3][2:])
	}
	c19Clean(false)
	o, n := c19SplitSep(args[4:])
	var old []byte
	fo, _ := c19Build(o)
	do := c19Dump(fo, nil)
	if hasfav != 0 {
		if _, err := fo.Save(c19UID); err != nil {
			return []string{"9"}
		}
		var err error
		old, err = os.ReadFile(c19FavPath())
		must(err)
	}
	fn, _ := c19Build(n)
	dn := c19Dump(fn, nil)
	script := make([]string, len(n))
	for i, g := range n {
		script[i] = strings.Join(g, " ")
	}
	env := append(os.Environ(), "VERIF_C19_CHILD=1", "VERIF_C19_DIR="+c19Root, "VERIF_C19_MARK=1",
		"VERIF_C19_SCRIPT="+strings.Join(script, "|"), "VERIF_C19_REL="+strconv.FormatInt(rel, 10))
	plant := func() {
		c19Clean(false)
		if hasfav != 0 {
			c19PlantOld(old)
		}
		if fav4b != nil {
			must(os.WriteFile(filepath.Join(c19UserDir, fav.FAV4), fav4b, 0o644))
		}
		if staleb != nil {
			must(os.WriteFile(filepath.Join(c19UserDir, c19Stale), staleb, 0o644))
		}
	}
	var body []string
	var full []c19Sys
	for k := 1; ; k++ {
		if k > 100000 {
			return []string{"2"}
		}
		plant()
		trace, killed, status, err := c19Traced(env, k)
		if err != nil {
			return []string{"3", "20"} // ptrace is not available here
		}
		body = append(body, c19DumpDir()...)
		body = append(body, c19LoadAfter()...)
		if !killed {
			if status != 0 {
				return []string{"1"} // the child panicked or failed
			}
			full = trace
			break
		}
	}
	out := []string{"0", strconv.Itoa(len(do))}
	out = append(out, do...)
	out = append(out, strconv.Itoa(len(dn)))
	out = append(out, dn...)
	out = append(out, strconv.Itoa(len(full)))
	for _, s := range full {
		out = append(out, strconv.Itoa(s.kind), strconv.Itoa(c19NameCode(s.a)), strconv.Itoa(c19NameCode(s.b)), strconv.FormatInt(s.n, 10))
	}
	return append(out, body...)
}
