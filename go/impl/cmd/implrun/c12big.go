package main

// C12 — big tables (op 6). The production build (-tags docker) has MAX_BOARD = 20000; a table of
// thousands of boards cannot be printed byte for byte after every request. The driver therefore keeps
// the previous observation and prints what differs from it: .BRD slots, shared-memory entries, moderator
// cache entries, both sorted indexes (whole, when anything in them moved), GetBid of every pool name
// and the directory set. The first observation (after the reload) is printed as its difference to what
// the harness wrote: .BRD as written, cache = file slots with FirstChild cleared, moderator cache all -1,
// empty indexes, GetBid unknown (-2), no directories. The check rebuilds every state from the differences
// and runs the same direct predicates as on the small tables.

import (
	"bytes"
	"os"
	"unsafe"

	"github.com/Ptt-official-app/go-pttbbs/cache"
	"github.com/Ptt-official-app/go-pttbbs/ptttype"
)

type c12Delta struct {
	file  [][]byte
	cache [][]byte
	bm    [][4]int64
	sn    []int64
	sc    []int64
	get   []int64
	dirs  []string
}

var c12ZeroSlot = make([]byte, c12Slot)

func newC12Delta(brd []byte, ns int, npool int) *c12Delta {
	d := &c12Delta{}
	for i := 0; i < ns; i++ {
		s := append([]byte{}, brd[i*c12Slot:(i+1)*c12Slot]...)
		d.file = append(d.file, s)
		if i < ptttype.MAX_BOARD {
			c := append([]byte{}, s...)
			for j := 144; j < 152; j++ { // FirstChild, cleared by SortBCache
				c[j] = 0
			}
			d.cache = append(d.cache, c)
		}
	}
	d.get = make([]int64, npool)
	for i := range d.get {
		d.get[i] = -2
	}
	return d
}

// entry i of Shm.BCache as the 256 bytes of its record (the in-memory struct has no padding: checked
// against the serialised form on the first entries of every observation)
func c12CacheFast(i int) []byte {
	if unsafe.Sizeof(cache.Shm.Shm.BCache[0]) != c12Slot {
		return c12CacheBytes(i)
	}
	p := (*[c12Slot]byte)(unsafe.Pointer(&cache.Shm.Shm.BCache[i]))
	return append([]byte{}, p[:]...)
}

func c12GetOr(l [][]byte, i int) []byte {
	if i < len(l) {
		return l[i]
	}
	return c12ZeroSlot
}

func (d *c12Delta) observe(code, bid int64, pool [][]byte, brdPath string, dirs []string) []string {
	out := []string{oi(code), oi(bid)}
	bnum := int(cache.Shm.GetBNumber())
	out = append(out, oi(int64(bnum)))
	file, _ := os.ReadFile(brdPath)
	nfile := len(file) / c12Slot
	torn := len(file)%c12Slot != 0
	if torn {
		out = append(out, oi(int64(-1-len(file))))
	} else {
		out = append(out, oi(int64(nfile)))
	}
	// .BRD
	var cur [][]byte
	for i := 0; i < nfile; i++ {
		cur = append(cur, file[i*c12Slot:(i+1)*c12Slot])
	}
	n := len(cur)
	if len(d.file) > n {
		n = len(d.file)
	}
	var diff []string
	nd := 0
	for i := 0; i < n; i++ {
		var a, b []byte
		if i < len(d.file) {
			a = d.file[i]
		}
		if i < len(cur) {
			b = cur[i]
		}
		if (a == nil) != (b == nil) || !bytes.Equal(a, b) {
			nd++
			if b == nil {
				diff = append(diff, oi(int64(i)), "0") // slot no longer there
			} else {
				diff = append(diff, oi(int64(i)), c12Big(b))
			}
		}
	}
	out = append(out, oi(int64(nd)))
	out = append(out, diff...)
	d.file = cur
	// shared-memory copy, entries [0, k)
	k := nfile
	if bnum > k {
		k = bnum
	}
	k++
	if k > ptttype.MAX_BOARD {
		k = ptttype.MAX_BOARD
	}
	if k < 0 {
		k = 0
	}
	for i := 0; i < k && i < 3; i++ {
		if !bytes.Equal(c12CacheFast(i), c12CacheBytes(i)) {
			panic("c12: in-memory layout of BoardHeaderRaw differs from its serialised form")
		}
	}
	curc := make([][]byte, k)
	for i := 0; i < k; i++ {
		curc[i] = c12CacheFast(i)
	}
	n = k
	if len(d.cache) > n {
		n = len(d.cache)
	}
	diff, nd = nil, 0
	for i := 0; i < n; i++ {
		b := c12ZeroSlot
		if i < k {
			b = curc[i]
		} else if i < ptttype.MAX_BOARD {
			b = c12CacheFast(i)
		}
		if !bytes.Equal(c12GetOr(d.cache, i), b) {
			nd++
			diff = append(diff, oi(int64(i)), c12Big(b))
		}
	}
	out = append(out, oi(int64(k)), oi(int64(nd)))
	out = append(out, diff...)
	d.cache = curc
	tailZero := int64(1)
	if k < ptttype.MAX_BOARD {
		if unsafe.Sizeof(cache.Shm.Shm.BCache[0]) == c12Slot {
			tail := unsafe.Slice((*byte)(unsafe.Pointer(&cache.Shm.Shm.BCache[k])), (ptttype.MAX_BOARD-k)*c12Slot)
			for _, c := range tail {
				if c != 0 {
					tailZero = 0
					break
				}
			}
		} else {
			for i := k; i < ptttype.MAX_BOARD && tailZero == 1; i++ {
				if !bytes.Equal(c12CacheBytes(i), c12ZeroSlot) {
					tailZero = 0
				}
			}
		}
	}
	out = append(out, oi(tailZero))
	// moderator cache, entries [0, k); baseline -1 -1 -1 -1
	diff, nd = nil, 0
	curbm := make([][4]int64, k)
	for i := 0; i < k; i++ {
		for j := 0; j < 4; j++ {
			curbm[i][j] = int64(cache.Shm.Shm.BMCache[i][j])
		}
		prev := [4]int64{-1, -1, -1, -1}
		if i < len(d.bm) {
			prev = d.bm[i]
		}
		if prev != curbm[i] {
			nd++
			diff = append(diff, oi(int64(i)), oi(curbm[i][0]), oi(curbm[i][1]), oi(curbm[i][2]), oi(curbm[i][3]))
		}
	}
	out = append(out, oi(int64(nd)))
	out = append(out, diff...)
	d.bm = curbm
	// sorted indexes: whole arrays when anything moved
	for s := 0; s < 2; s++ {
		var cur []int64
		for i := 0; i < bnum && i < ptttype.MAX_BOARD; i++ {
			cur = append(cur, int64(cache.Shm.Shm.BSorted[s][i]))
		}
		prev := d.sn
		if s == 1 {
			prev = d.sc
		}
		same := len(prev) == len(cur)
		for i := 0; same && i < len(cur); i++ {
			same = prev[i] == cur[i]
		}
		if same {
			out = append(out, "0")
		} else {
			out = append(out, "1", oi(int64(len(cur))))
			for _, v := range cur {
				out = append(out, oi(v))
			}
		}
		if s == 0 {
			d.sn = cur
		} else {
			d.sc = cur
		}
	}
	// GetBid of every pool name
	diff, nd = nil, 0
	for pi, n := range pool {
		id := &ptttype.BoardID_t{}
		copy(id[:], n)
		b, err := cache.GetBid(id)
		v := int64(b)
		if err != nil {
			v = -1
		}
		if d.get[pi] != v {
			nd++
			diff = append(diff, oi(int64(pi)), oi(v))
			d.get[pi] = v
		}
	}
	out = append(out, oi(int64(nd)))
	out = append(out, diff...)
	// directories (sorted lists): added, removed
	have := map[string]bool{}
	for _, x := range d.dirs {
		have[x] = true
	}
	now := map[string]bool{}
	var added, removed []string
	for _, x := range dirs {
		now[x] = true
		if !have[x] {
			added = append(added, c12Big([]byte(x)))
		}
	}
	for _, x := range d.dirs {
		if !now[x] {
			removed = append(removed, c12Big([]byte(x)))
		}
	}
	out = append(out, oi(int64(len(dirs))), oi(int64(len(added))))
	out = append(out, added...)
	out = append(out, oi(int64(len(removed))))
	out = append(out, removed...)
	d.dirs = dirs
	return out
}
