package main

// C20: balances in shared memory and in .PASSWDS. One case is a whole history:
//   1|<bytes of .PASSWDS>|k uid amount|k uid|...      k: 1 SetUMoney, 2 DeUMoney, 3 MoneyOf, 4 ptt.GetUser(id of slot).Money
// and the other writers of the same user's record, interleaved with the money operations:
//   5 uid <record bytes>        ptt.passwdSyncUpdate(uid, record)      (the record is the caller's: any Money in it)
//   6 uid perm <record bytes>   ptt.SetUserPerm(nil, uid, record, perm)
//   7 uid                       record := ptt.pwcuStart(uid, id in the file)   (kept by the driver until the matching 8)
//   8 uid bump                  record.NumPosts += bump; ptt.pwcuEnd(uid, record)
//   9 uid                       ptt.killUser(uid, id of the slot)
//   10 uid <14 bytes>           cmbbs.PasswdUpdatePasswd     11 uid <50 bytes>  cmbbs.PasswdUpdateEmail
//   12 uid                      ptt.pwcuIncNumPost(&UserecRaw{UserID: id in the file}, uid)
// value of 5/6/8: the Money the caller's record carries after the call; of 7: the Money of the record returned.
// The file is written, the segment is reset and cold-loaded from it, then every operation is run
// (each under its own recover). After the load and after every step the driver prints
//   <all MAX_USERS Money values of the attached segment> <file length> <n> <offset byte>*n
// where the pairs are every byte of .PASSWDS that differs from the initial file; a step line is
// preceded by  <status 0|1|3> <value> <error code> <Money field of that slot read back with cmbbs.PasswdQuery>.

import (
	"bytes"
	"encoding/binary"
	"errors"
	"os"
	"reflect"
	"unsafe"

	"github.com/Ptt-official-app/go-pttbbs/cache"
	"github.com/Ptt-official-app/go-pttbbs/cmbbs"
	"github.com/Ptt-official-app/go-pttbbs/ptt"
	"github.com/Ptt-official-app/go-pttbbs/ptttype"
)

func c20ErrCode(err error) int64 {
	if errors.Is(err, cache.ErrInvalidUID) {
		return 1
	}
	return 99
}

func c20Observe(init []byte) []string {
	out := make([]string, 0, 64)
	for i := 0; i < int(ptttype.MAX_USERS); i++ {
		out = append(out, oi(int64(cache.Shm.Shm.Money[i])))
	}
	cur, err := os.ReadFile(ptttype.FN_PASSWD)
	if err != nil {
		panic(err)
	}
	out = append(out, oi(int64(len(cur))))
	diffs := []string{}
	n := len(cur)
	if len(init) > n {
		n = len(init)
	}
	for i := 0; i < n; i++ {
		switch {
		case i >= len(cur):
			diffs = append(diffs, oi(int64(i)), "-1")
		case i >= len(init) || init[i] != cur[i]:
			diffs = append(diffs, oi(int64(i)), oi(int64(cur[i])))
		}
	}
	out = append(out, oi(int64(len(diffs)/2)))
	return append(out, diffs...)
}

// the Money field of record uid as the repository's own codec reads it; raw bytes (zero padded) when the record is incomplete
func c20Field(uid ptttype.UID) int64 {
	if !uid.IsValid() {
		return 0
	}
	u, err := cmbbs.PasswdQuery(uid)
	if err == nil {
		return int64(u.Money)
	}
	cur, _ := os.ReadFile(ptttype.FN_PASSWD)
	off := int(ptttype.USEREC_RAW_SZ)*int(uid-1) + int(unsafe.Offsetof(ptttype.USEREC_RAW.Money))
	b := make([]byte, 4)
	if off < len(cur) {
		copy(b, cur[off:])
	}
	return int64(int32(binary.LittleEndian.Uint32(b)))
}

// a record given as its canonical little-endian bytes (exactly USEREC_RAW_SZ of them)
func c20Record(toks []string) *ptttype.UserecRaw {
	if len(toks) != int(ptttype.USEREC_RAW_SZ) {
		panic("badcase:record length")
	}
	rec := &ptttype.UserecRaw{}
	if err := binary.Read(bytes.NewReader(ab(toks)), binary.LittleEndian, rec); err != nil {
		panic("badcase:record")
	}
	return rec
}

// the user id stored in record uid of the file
func c20FileID(uid ptttype.UID) *ptttype.UserID_t {
	u, err := cmbbs.PasswdQuery(uid)
	if err != nil {
		panic("badcase:no record")
	}
	id := u.UserID
	return &id
}

func c20Err(v int64, err error) []string {
	if err != nil {
		return []string{"3", oi(v), oi(c20ErrCode(err))}
	}
	return []string{"0", oi(v), "0"}
}

var c20Pending = map[ptttype.UID]*ptttype.UserecRaw{}

// offsets (inside a record) of the bytes that encoding/binary reads as bool
func c20BoolOffsets() []string {
	out := []string{}
	t := reflect.TypeOf(ptttype.UserecRaw{})
	for i := 0; i < t.NumField(); i++ {
		if t.Field(i).Type.Kind() == reflect.Bool {
			out = append(out, oi(int64(t.Field(i).Offset)))
		}
	}
	return out
}

func c20Step(g []string) (res []string) {
	defer func() {
		if r := recover(); r != nil {
			if s, ok := r.(string); ok && len(s) > 8 && s[:8] == "badcase:" {
				panic(r)
			}
			if os.Getenv("VERIF_SHOW_PANIC") != "" {
				os.Stderr.WriteString("panic in step\n")
			}
			res = []string{"1", "0", "0"}
		}
	}()
	uid := ptttype.UID(int32(ai(g[1])))
	switch ai(g[0]) {
	case 1:
		v, err := cache.SetUMoney(uid, int32(ai(g[2])))
		if err != nil {
			return []string{"3", oi(int64(v)), oi(c20ErrCode(err))}
		}
		return []string{"0", oi(int64(v)), "0"}
	case 2:
		v, err := cache.DeUMoney(uid, int32(ai(g[2])))
		if err != nil {
			return []string{"3", oi(int64(v)), oi(c20ErrCode(err))}
		}
		return []string{"0", oi(int64(v)), "0"}
	case 3:
		return []string{"0", oi(int64(cache.MoneyOf(uid))), "0"}
	case 4:
		id, err := cache.GetUserID(uid)
		if err != nil {
			panic("badcase:4")
		}
		u, err := ptt.GetUser(id)
		if err != nil {
			return []string{"3", "0", "98"}
		}
		return []string{"0", oi(int64(u.Money)), "0"}
	case 5:
		rec := c20Record(g[2:])
		err := ptt.VerifPasswdSyncUpdate(uid, rec)
		return c20Err(int64(rec.Money), err)
	case 6:
		rec := c20Record(g[3:])
		_, err := ptt.SetUserPerm(nil, uid, rec, ptttype.PERM(uint32(au(g[2]))))
		return c20Err(int64(rec.Money), err)
	case 7:
		if !uid.IsValid() {
			panic("badcase:7")
		}
		rec, err := ptt.VerifPwcuStart(uid, c20FileID(uid))
		if err != nil {
			return []string{"3", "0", "98"}
		}
		c20Pending[uid] = rec
		return []string{"0", oi(int64(rec.Money)), "0"}
	case 8:
		rec := c20Pending[uid]
		if rec == nil {
			panic("badcase:8")
		}
		delete(c20Pending, uid)
		rec.NumPosts += uint32(au(g[2]))
		err := ptt.VerifPwcuEnd(uid, rec)
		return c20Err(int64(rec.Money), err)
	case 9:
		id, err := cache.GetUserID(uid)
		if err != nil {
			panic("badcase:9")
		}
		theID := *id
		return c20Err(0, ptt.VerifKillUser(uid, &theID))
	case 10:
		h := &ptttype.Passwd_t{}
		if len(g)-2 != len(h) {
			panic("badcase:10")
		}
		copy(h[:], ab(g[2:]))
		return c20Err(0, cmbbs.PasswdUpdatePasswd(uid, h))
	case 11:
		e := &ptttype.Email_t{}
		if len(g)-2 != len(e) {
			panic("badcase:11")
		}
		copy(e[:], ab(g[2:]))
		return c20Err(0, cmbbs.PasswdUpdateEmail(uid, e))
	case 12:
		if !uid.IsValid() {
			panic("badcase:12")
		}
		caller := &ptttype.UserecRaw{UserID: *c20FileID(uid)}
		return c20Err(0, ptt.VerifPwcuIncNumPost(caller, uid))
	}
	panic("badcase:op")
}

func init() {
	var env *bbsEnv
	register("C20", &propDriver{
		setup:    func() { env = newBBSEnv("ptt", false) },
		teardown: func() { env.close() },
		run: func(args [][]string) []string {
			switch ai(args[0][0]) {
			case 1:
				init := ab(args[1])
				must(os.WriteFile(ptttype.FN_PASSWD, init, 0o600))
				env.reload(false)
				c20Pending = map[ptttype.UID]*ptttype.UserecRaw{}
				out := ok(c20Observe(init)...)
				for _, g := range args[2:] {
					if len(g) < 2 {
						return []string{"9"}
					}
					out = append(out, c20Step(g)...)
					out = append(out, oi(c20Field(ptttype.UID(int32(ai(g[1]))))))
					out = append(out, c20Observe(init)...)
				}
				return out
			case 2: // constants as the compiled program sees them
				return ok(oi(int64(ptttype.MAX_USERS)), oi(int64(ptttype.USEREC_RAW_SZ)), oi(int64(unsafe.Offsetof(ptttype.USEREC_RAW.Money))))
			case 3: // layout of the fields the record writers touch, and of the bool bytes
				b := c20BoolOffsets()
				return append(ok(oi(int64(unsafe.Offsetof(ptttype.USEREC_RAW.UserLevel))), oi(int64(unsafe.Offsetof(ptttype.USEREC_RAW.NumPosts))),
					oi(int64(unsafe.Offsetof(ptttype.USEREC_RAW.PasswdHash))), oi(int64(len(ptttype.Passwd_t{}))),
					oi(int64(unsafe.Offsetof(ptttype.USEREC_RAW.Email))), oi(int64(len(ptttype.Email_t{}))), oi(int64(len(b)))), b...)
			}
			return []string{"9"}
		},
	})
}
