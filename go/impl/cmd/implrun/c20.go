package main

// C20: balances in shared memory and in .PASSWDS. One case is a whole history:
//   1|<bytes of .PASSWDS>|k uid amount|k uid|...      k: 1 SetUMoney, 2 DeUMoney, 3 MoneyOf, 4 ptt.GetUser(id of slot).Money
// and the other writers of the same user's record, interleaved with the money operations:
//   5 uid <record bytes>        ptt.passwdSyncUpdate(uid, record)      (the record is the caller's: any Money in it)
//   6 uid perm <record bytes>   ptt.SetUserPerm(nil, uid, record, perm)
//   7 uid                       record := ptt.pwcuStart(uid, id in the file)   (kept by the driver until the matching 8)
//   8 uid bump                  record.NumPosts += bump; ptt.pwcuEnd(uid, record)
//   9 uid                       ptt.killUser(uid, id of the slot)
//   10 uid <14 bytes>           cmbbs.PasswdUpdatePasswd     11 uid <50 bytes>  cmbbs.PasswdUpdateEmail
//   12 uid                      ptt.pwcuIncNumPost(&UserecRaw{UserID: id in the file}, uid)
//   13 mode <k uid ...>         the operation <k uid ...> while .PASSWDS refuses the write: mode 1 = the file is away (renamed) for
//                               the duration of the call, so the open fails; mode 2 = the path leads to /dev/full for the duration of
//                               the call, so open and seek succeed and the write itself fails (ENOSPC). The file is back before the observation.
//   14 uid m                    the segment's balance of the slot is set to m WITHOUT a file write (what a process that died between
//                               SetUMoney's store into shared memory and its write to .PASSWDS leaves behind; SysV memory survives it)
//   15 uid m                    the Money field of the record in .PASSWDS is set to m behind the segment's back (a maintenance tool, a restore)
// value of 5/6/8: the Money the caller's record carries after the call; of 7: the Money of the record returned.
// Production-size table (driver built with -tags "verif docker", MAX_USERS = 2 000 000):
//   4|nrec load|w1 w2 ..|u m u m ..|<op>|<op>|...
// .PASSWDS is a sparse file of nrec zero records in which record u carries the user id "u<u>" and Money m for every (u, m) given;
// load 1: Shm.Reset + LoadUHash over the whole file (a real cold load, about a GB of records); load 0: Shm.Reset and the segment's
// balance of every (u, m) is put where the cold load puts it (Shm.Money[u-1] = m), Number/Loaded as after a load.
// Observation (after the load and after every step):
//   <k> (slot balance)*k   every non-zero balance of the whole segment
//   <file length> <n> (offset byte)*n   every non-zero byte of .PASSWDS (read from its data extents: SEEK_DATA / SEEK_HOLE)
// The file is written, the segment is reset and cold-loaded from it, then every operation is run
// (each under its own recover). After the load and after every step the driver prints
//   <all MAX_USERS Money values of the attached segment> <file length> <n> <offset byte>*n
// where the pairs are every byte of .PASSWDS that differs from the initial file; a step line is
// preceded by  <status 0|1|3> <value> <error code> <Money field of that slot read back with cmbbs.PasswdQuery>.

import (
	"bytes"
	"encoding/binary"
	"errors"
	"os"
	"reflect"
	"strconv"
	"syscall"
	"unsafe"

	"github.com/Ptt-official-app/go-pttbbs/cache"
	"github.com/Ptt-official-app/go-pttbbs/cmbbs"
	"github.com/Ptt-official-app/go-pttbbs/ptt"
	"github.com/Ptt-official-app/go-pttbbs/ptttype"
)

func c20ErrCode(err error) int64 {
	if errors.Is(err, cache.ErrInvalidUID) {
		return 1
	}
	return 99
}

func c20Observe(init []byte) []string {
	out := make([]string, 0, 64)
	for i := 0; i < int(ptttype.MAX_USERS); i++ {
		out = append(out, oi(int64(cache.Shm.Shm.Money[i])))
	}
	cur, err := os.ReadFile(ptttype.FN_PASSWD)
	if err != nil {
		panic(err)
	}
	out = append(out, oi(int64(len(cur))))
	diffs := []string{}
	n := len(cur)
	if len(init) > n {
		n = len(init)
	}
	for i := 0; i < n; i++ {
		switch {
		case i >= len(cur):
			diffs = append(diffs, oi(int64(i)), "-1")
		case i >= len(init) || init[i] != cur[i]:
			diffs = append(diffs, oi(int64(i)), oi(int64(cur[i])))
		}
	}
	out = append(out, oi(int64(len(diffs)/2)))
	return append(out, diffs...)
}

// the Money field of record uid as the repository's own codec reads it; raw bytes (zero padded) when the record is incomplete
func c20Field(uid ptttype.UID) int64 {
	if !uid.IsValid() {
		return 0
	}
	u, err := cmbbs.PasswdQuery(uid)
	if err == nil {
		return int64(u.Money)
	}
	cur, _ := os.ReadFile(ptttype.FN_PASSWD)
	off := int(ptttype.USEREC_RAW_SZ)*int(uid-1) + int(unsafe.Offsetof(ptttype.USEREC_RAW.Money))
	b := make([]byte, 4)
	if off < len(cur) {
		copy(b, cur[off:])
	}
	return int64(int32(binary.LittleEndian.Uint32(b)))
}

// a record given as its canonical little-endian bytes (exactly USEREC_RAW_SZ of them)
func c20Record(toks []string) *ptttype.UserecRaw {
	if len(toks) != int(ptttype.USEREC_RAW_SZ) {
		panic("badcase:record length")
	}
	rec := &ptttype.UserecRaw{}
	if err := binary.Read(bytes.NewReader(ab(toks)), binary.LittleEndian, rec); err != nil {
		panic("badcase:record")
	}
	return rec
}

// the user id stored in record uid of the file
func c20FileID(uid ptttype.UID) *ptttype.UserID_t {
	u, err := cmbbs.PasswdQuery(uid)
	if err != nil {
		panic("badcase:no record")
	}
	id := u.UserID
	return &id
}

func c20Err(v int64, err error) []string {
	if err != nil {
		return []string{"3", oi(v), oi(c20ErrCode(err))}
	}
	return []string{"0", oi(v), "0"}
}

var c20Pending = map[ptttype.UID]*ptttype.UserecRaw{}

// offsets (inside a record) of the bytes that encoding/binary reads as bool
func c20BoolOffsets() []string {
	out := []string{}
	t := reflect.TypeOf(ptttype.UserecRaw{})
	for i := 0; i < t.NumField(); i++ {
		if t.Field(i).Type.Kind() == reflect.Bool {
			out = append(out, oi(int64(t.Field(i).Offset)))
		}
	}
	return out
}

func c20Step(g []string) (res []string) {
	defer func() {
		if r := recover(); r != nil {
			if s, ok := r.(string); ok && len(s) > 8 && s[:8] == "badcase:" {
				panic(r)
			}
			if os.Getenv("VERIF_SHOW_PANIC") != "" {
				os.Stderr.WriteString("panic in step\n")
			}
			res = []string{"1", "0", "0"}
		}
	}()
	if ai(g[0]) == 13 {
		if len(g) < 4 {
			panic("badcase:13")
		}
		restore := c20Refuse(ai(g[1]))
		defer restore()
		return c20Step(g[2:])
	}
	uid := ptttype.UID(int32(ai(g[1])))
	switch ai(g[0]) {
	case 14:
		if !uid.IsValid() {
			panic("badcase:14")
		}
		cache.Shm.Shm.Money[uid-1] = int32(ai(g[2]))
		return []string{"0", g[2], "0"}
	case 15:
		if !uid.IsValid() {
			panic("badcase:15")
		}
		f, err := os.OpenFile(ptttype.FN_PASSWD, os.O_WRONLY, 0o600)
		must(err)
		defer f.Close()
		b := make([]byte, 4)
		binary.LittleEndian.PutUint32(b, uint32(int32(ai(g[2]))))
		_, err = f.WriteAt(b, int64(ptttype.USEREC_RAW_SZ)*int64(uid-1)+int64(unsafe.Offsetof(ptttype.USEREC_RAW.Money)))
		must(err)
		return []string{"0", g[2], "0"}
	case 1:
		v, err := cache.SetUMoney(uid, int32(ai(g[2])))
		if err != nil {
			return []string{"3", oi(int64(v)), oi(c20ErrCode(err))}
		}
		return []string{"0", oi(int64(v)), "0"}
	case 2:
		v, err := cache.DeUMoney(uid, int32(ai(g[2])))
		if err != nil {
			return []string{"3", oi(int64(v)), oi(c20ErrCode(err))}
		}
		return []string{"0", oi(int64(v)), "0"}
	case 3:
		return []string{"0", oi(int64(cache.MoneyOf(uid))), "0"}
	case 4:
		id, err := cache.GetUserID(uid)
		if err != nil {
			panic("badcase:4")
		}
		u, err := ptt.GetUser(id)
		if err != nil {
			return []string{"3", "0", "98"}
		}
		return []string{"0", oi(int64(u.Money)), "0"}
	case 5:
		rec := c20Record(g[2:])
		err := ptt.VerifPasswdSyncUpdate(uid, rec)
		return c20Err(int64(rec.Money), err)
	case 6:
		rec := c20Record(g[3:])
		_, err := ptt.SetUserPerm(nil, uid, rec, ptttype.PERM(uint32(au(g[2]))))
		return c20Err(int64(rec.Money), err)
	case 7:
		if !uid.IsValid() {
			panic("badcase:7")
		}
		rec, err := ptt.VerifPwcuStart(uid, c20FileID(uid))
		if err != nil {
			return []string{"3", "0", "98"}
		}
		c20Pending[uid] = rec
		return []string{"0", oi(int64(rec.Money)), "0"}
	case 8:
		rec := c20Pending[uid]
		if rec == nil {
			panic("badcase:8")
		}
		delete(c20Pending, uid)
		rec.NumPosts += uint32(au(g[2]))
		err := ptt.VerifPwcuEnd(uid, rec)
		return c20Err(int64(rec.Money), err)
	case 9:
		id, err := cache.GetUserID(uid)
		if err != nil {
			panic("badcase:9")
		}
		theID := *id
		return c20Err(0, ptt.VerifKillUser(uid, &theID))
	case 10:
		h := &ptttype.Passwd_t{}
		if len(g)-2 != len(h) {
			panic("badcase:10")
		}
		copy(h[:], ab(g[2:]))
		return c20Err(0, cmbbs.PasswdUpdatePasswd(uid, h))
	case 11:
		e := &ptttype.Email_t{}
		if len(g)-2 != len(e) {
			panic("badcase:11")
		}
		copy(e[:], ab(g[2:]))
		return c20Err(0, cmbbs.PasswdUpdateEmail(uid, e))
	case 12:
		if !uid.IsValid() {
			panic("badcase:12")
		}
		caller := &ptttype.UserecRaw{UserID: *c20FileID(uid)}
		return c20Err(0, ptt.VerifPwcuIncNumPost(caller, uid))
	}
	panic("badcase:op")
}

// c20Refuse makes .PASSWDS refuse writes until the returned function is called.
func c20Refuse(mode int64) func() {
	away := ptttype.FN_PASSWD + ".away"
	if mode != 1 && mode != 2 {
		panic("badcase:refuse mode")
	}
	must(os.Rename(ptttype.FN_PASSWD, away))
	if mode == 2 {
		must(os.Symlink("/dev/full", ptttype.FN_PASSWD))
	}
	return func() {
		if mode == 2 {
			must(os.Remove(ptttype.FN_PASSWD))
		}
		must(os.Rename(away, ptttype.FN_PASSWD))
	}
}

// the slot an operation group addresses
func c20Target(g []string) ptttype.UID {
	if ai(g[0]) == 13 {
		if len(g) < 4 {
			panic("badcase:13")
		}
		return ptttype.UID(int32(ai(g[3])))
	}
	return ptttype.UID(int32(ai(g[1])))
}

// every non-zero balance of the segment; every non-zero byte of .PASSWDS (holes of a sparse file read as zero and are skipped)
func c20ObserveSparse() []string {
	out := []string{}
	k := 0
	for i := 0; i < int(ptttype.MAX_USERS); i++ {
		if m := cache.Shm.Shm.Money[i]; m != 0 {
			out = append(out, strconv.Itoa(i+1), oi(int64(m)))
			k++
		}
	}
	out = append([]string{strconv.Itoa(k)}, out...)
	f, err := os.Open(ptttype.FN_PASSWD)
	must(err)
	defer f.Close()
	st, err := f.Stat()
	must(err)
	size := st.Size()
	pairs := []string{}
	const seekData, seekHole = 3, 4
	buf := make([]byte, 1<<16)
	pos := int64(0)
	for pos < size {
		start, err := f.Seek(pos, seekData)
		if err != nil {
			if errors.Is(err, syscall.ENXIO) {
				break // no data after pos
			}
			start = pos // SEEK_DATA not supported here: everything is data
		}
		end, err := f.Seek(start, seekHole)
		if err != nil || end <= start {
			end = size
		}
		for at := start; at < end; {
			n := int64(len(buf))
			if end-at < n {
				n = end - at
			}
			m, err := f.ReadAt(buf[:n], at)
			for i := 0; i < m; i++ {
				if buf[i] != 0 {
					pairs = append(pairs, oi(at+int64(i)), strconv.Itoa(int(buf[i])))
				}
			}
			if m == 0 && err != nil {
				break
			}
			at += int64(m)
		}
		pos = end
	}
	out = append(out, oi(size), strconv.Itoa(len(pairs)/2))
	return append(out, pairs...)
}

// 4|nrec load|watch..|u m ..|ops: histories on a table of MAX_USERS slots, whatever MAX_USERS is in this build
func c20Big(args [][]string) []string {
	if len(args) < 4 || len(args[1]) != 2 || len(args[3])%2 != 0 {
		return []string{"9"}
	}
	nrec, load := ai(args[1][0]), ai(args[1][1])
	if nrec < 0 || nrec > int64(ptttype.MAX_USERS) {
		return []string{"9"}
	}
	os.Remove(ptttype.FN_PASSWD)
	f, err := os.OpenFile(ptttype.FN_PASSWD, os.O_CREATE|os.O_RDWR|os.O_TRUNC, 0o600)
	must(err)
	must(f.Truncate(nrec * int64(ptttype.USEREC_RAW_SZ)))
	type plant struct {
		u ptttype.UID
		m int32
	}
	plants := []plant{}
	for i := 0; i+1 < len(args[3]); i += 2 {
		u, m := ptttype.UID(int32(ai(args[3][i]))), int32(ai(args[3][i+1]))
		if int64(u) < 1 || int64(u) > nrec {
			f.Close()
			return []string{"9"}
		}
		rec := &ptttype.UserecRaw{Money: m}
		copy(rec.UserID[:], "u"+strconv.Itoa(int(u)))
		buf := &bytes.Buffer{}
		must(binary.Write(buf, binary.LittleEndian, rec))
		_, err = f.WriteAt(buf.Bytes(), int64(ptttype.USEREC_RAW_SZ)*int64(u-1))
		must(err)
		plants = append(plants, plant{u, m})
	}
	must(f.Close())
	cache.Shm.Reset()
	if load == 1 {
		must(cache.LoadUHash())
	} else {
		for _, p := range plants {
			cache.Shm.Shm.Userid[p.u-1] = ptttype.UserID_t{}
			copy(cache.Shm.Shm.Userid[p.u-1][:], "u"+strconv.Itoa(int(p.u)))
			cache.Shm.Shm.Money[p.u-1] = p.m
		}
		cache.Shm.Shm.Number = int32(nrec)
		cache.Shm.Shm.Loaded = 1
	}
	c20Pending = map[ptttype.UID]*ptttype.UserecRaw{}
	out := ok(c20ObserveSparse()...)
	for _, g := range args[4:] {
		if len(g) < 2 {
			return []string{"9"}
		}
		out = append(out, c20Step(g)...)
		out = append(out, oi(c20Field(c20Target(g))))
		out = append(out, c20ObserveSparse()...)
	}
	// leave the small fixture-sized file behind for the cases that follow
	must(os.Truncate(ptttype.FN_PASSWD, 0))
	return out
}

func init() {
	var env *bbsEnv
	register("C20", &propDriver{
		setup:    func() { env = newBBSEnv("ptt", false) },
		teardown: func() { env.close() },
		run: func(args [][]string) []string {
			switch ai(args[0][0]) {
			case 1:
				return c20History(env, args, 0)
			case 5: // the same history, .PASSWDS being a symbolic link to the record file (c20par.go)
				if len(args[0]) != 2 {
					return []string{"9"}
				}
				return c20History(env, args, ai(args[0][1]))
			case 6: // money operations from several goroutines of this process (c20par.go)
				return c20Parallel(env, args)
			case 4:
				return c20Big(args)
			case 2: // constants as the compiled program sees them
				return ok(oi(int64(ptttype.MAX_USERS)), oi(int64(ptttype.USEREC_RAW_SZ)), oi(int64(unsafe.Offsetof(ptttype.USEREC_RAW.Money))))
			case 3: // layout of the fields the record writers touch, and of the bool bytes
				b := c20BoolOffsets()
				return append(ok(oi(int64(unsafe.Offsetof(ptttype.USEREC_RAW.UserLevel))), oi(int64(unsafe.Offsetof(ptttype.USEREC_RAW.NumPosts))),
					oi(int64(unsafe.Offsetof(ptttype.USEREC_RAW.PasswdHash))), oi(int64(len(ptttype.Passwd_t{}))),
					oi(int64(unsafe.Offsetof(ptttype.USEREC_RAW.Email))), oi(int64(len(ptttype.Email_t{}))), oi(int64(len(b)))), b...)
			}
			return []string{"9"}
		},
	})
}
