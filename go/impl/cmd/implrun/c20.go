package main

// C20: balances in shared memory and in .PASSWDS. One case is a whole history:
//   1|<bytes of .PASSWDS>|k uid amount|k uid|...      k: 1 SetUMoney, 2 DeUMoney, 3 MoneyOf, 4 ptt.GetUser(id of slot).Money
// The file is written, the segment is reset and cold-loaded from it, then every operation is run
// (each under its own recover). After the load and after every step the driver prints
//   <all MAX_USERS Money values of the attached segment> <file length> <n> <offset byte>*n
// where the pairs are every byte of .PASSWDS that differs from the initial file; a step line is
// preceded by  <status 0|1|3> <value> <error code> <Money field of that slot read back with cmbbs.PasswdQuery>.

import (
	"encoding/binary"
	"errors"
	"os"
	"unsafe"

	"github.com/Ptt-official-app/go-pttbbs/cache"
	"github.com/Ptt-official-app/go-pttbbs/cmbbs"
	"github.com/Ptt-official-app/go-pttbbs/ptt"
	"github.com/Ptt-official-app/go-pttbbs/ptttype"
)

func c20ErrCode(err error) int64 {
	if errors.Is(err, cache.ErrInvalidUID) {
		return 1
	}
	return 99
}

func c20Observe(init []byte) []string {
	out := make([]string, 0, 64)
	for i := 0; i < int(ptttype.MAX_USERS); i++ {
		out = append(out, oi(int64(cache.Shm.Shm.Money[i])))
	}
	cur, err := os.ReadFile(ptttype.FN_PASSWD)
	if err != nil {
		panic(err)
	}
	out = append(out, oi(int64(len(cur))))
	diffs := []string{}
	n := len(cur)
	if len(init) > n {
		n = len(init)
	}
	for i := 0; i < n; i++ {
		switch {
		case i >= len(cur):
			diffs = append(diffs, oi(int64(i)), "-1")
		case i >= len(init) || init[i] != cur[i]:
			diffs = append(diffs, oi(int64(i)), oi(int64(cur[i])))
		}
	}
	out = append(out, oi(int64(len(diffs)/2)))
	return append(out, diffs...)
}

// the Money field of record uid as the repository's own codec reads it; raw bytes (zero padded) when the record is incomplete
func c20Field(uid ptttype.UID) int64 {
	if !uid.IsValid() {
		return 0
	}
	u, err := cmbbs.PasswdQuery(uid)
	if err == nil {
		return int64(u.Money)
	}
	cur, _ := os.ReadFile(ptttype.FN_PASSWD)
	off := int(ptttype.USEREC_RAW_SZ)*int(uid-1) + int(unsafe.Offsetof(ptttype.USEREC_RAW.Money))
	b := make([]byte, 4)
	if off < len(cur) {
		copy(b, cur[off:])
	}
	return int64(int32(binary.LittleEndian.Uint32(b)))
}

func c20Step(g []string) (res []string) {
	defer func() {
		if r := recover(); r != nil {
			if s, ok := r.(string); ok && len(s) > 8 && s[:8] == "badcase:" {
				panic(r)
			}
			if os.Getenv("VERIF_SHOW_PANIC") != "" {
				os.Stderr.WriteString("panic in step\n")
			}
			res = []string{"1", "0", "0"}
		}
	}()
	uid := ptttype.UID(int32(ai(g[1])))
	switch ai(g[0]) {
	case 1:
		v, err := cache.SetUMoney(uid, int32(ai(g[2])))
		if err != nil {
			return []string{"3", oi(int64(v)), oi(c20ErrCode(err))}
		}
		return []string{"0", oi(int64(v)), "0"}
	case 2:
		v, err := cache.DeUMoney(uid, int32(ai(g[2])))
		if err != nil {
			return []string{"3", oi(int64(v)), oi(c20ErrCode(err))}
		}
		return []string{"0", oi(int64(v)), "0"}
	case 3:
		return []string{"0", oi(int64(cache.MoneyOf(uid))), "0"}
	case 4:
		id, err := cache.GetUserID(uid)
		if err != nil {
			panic("badcase:4")
		}
		u, err := ptt.GetUser(id)
		if err != nil {
			return []string{"3", "0", "98"}
		}
		return []string{"0", oi(int64(u.Money)), "0"}
	}
	panic("badcase:op")
}

func init() {
	var env *bbsEnv
	register("C20", &propDriver{
		setup:    func() { env = newBBSEnv("ptt", false) },
		teardown: func() { env.close() },
		run: func(args [][]string) []string {
			switch ai(args[0][0]) {
			case 1:
				init := ab(args[1])
				must(os.WriteFile(ptttype.FN_PASSWD, init, 0o600))
				env.reload(false)
				out := ok(c20Observe(init)...)
				for _, g := range args[2:] {
					if len(g) < 2 {
						return []string{"9"}
					}
					out = append(out, c20Step(g)...)
					out = append(out, oi(c20Field(ptttype.UID(int32(ai(g[1]))))))
					out = append(out, c20Observe(init)...)
				}
				return out
			case 2: // constants as the compiled program sees them
				return ok(oi(int64(ptttype.MAX_USERS)), oi(int64(ptttype.USEREC_RAW_SZ)), oi(int64(unsafe.Offsetof(ptttype.USEREC_RAW.Money))))
			}
			return []string{"9"}
		},
	})
}
