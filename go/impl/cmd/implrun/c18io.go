package main

import (
	"bufio"
	"errors"
	"io"
	"os"
	"path/filepath"
	"syscall"
	"testing/iotest"

	"github.com/Ptt-official-app/go-pttbbs/cmsys"
	"github.com/Ptt-official-app/go-pttbbs/types"
)

// C18, line reading over readers that fail and over real files.
//
// op 26: types.ReadLine, called ncalls times over bufio.NewReaderSize(<faulty reader>, bufsize).
//   26 | events | ncalls | chunks | bufsize mode
//   events: one number per event, < 256 a byte, 256+code a read error the underlying Read hands out ONCE
//           (code 0 io.EOF, 1 an EIO-like error, 2 iotest.ErrTimeout, 3 syscall.ESTALE, 4 io.ErrUnexpectedEOF);
//           after the last event Read answers (0, io.EOF) for ever.
//   chunks: the most bytes the 1st, 2nd, ... Read delivers (cyclic; empty = as many as fit); 0 = a Read of (0, nil).
//   mode:   0 the error comes alone (0, err); 1 it comes with the last data (n, err); 2 iotest.OneByteReader,
//           3 iotest.HalfReader, 4 iotest.DataErrReader wrapped around mode 0.
//   answer: 0 ncalls then per call: 0 len bytes... (line, nil error) | 1 code (nil line, error) | 2 len bytes... code
//           (a line AND an error - never happens with the code as it is, kept visible).
//           The lines are NOT copied while reading on (as op 6).
//
// op 27: cmsys.FileFindRecord / FileExistsRecord on a real file.
//   27 | content | key      answer: 0 idx exists

var c18ErrIO = errors.New("c18: input/output error")

var c18Errs = []error{io.EOF, c18ErrIO, iotest.ErrTimeout, syscall.ESTALE, io.ErrUnexpectedEOF}

func c18ErrCode(err error) int64 {
	for i, e := range c18Errs {
		if err == e {
			return int64(i)
		}
	}
	if err == types.ErrNilReader {
		return 90
	}
	if err == io.ErrNoProgress {
		return 91
	}
	if err == bufio.ErrBufferFull {
		return 92
	}
	return 99
}

type c18EvReader struct {
	ev      []int64
	pos     int
	chunks  []int64
	nread   int
	withErr bool
}

func (r *c18EvReader) Read(p []byte) (int, error) {
	if r.pos >= len(r.ev) {
		return 0, io.EOF
	}
	if r.ev[r.pos] >= 256 {
		e := c18Errs[r.ev[r.pos]-256]
		r.pos++
		return 0, e
	}
	max := len(p)
	if len(r.chunks) > 0 {
		c := int(r.chunks[r.nread%len(r.chunks)])
		r.nread++
		if c < max {
			max = c
		}
	}
	n := 0
	for n < max && r.pos < len(r.ev) && r.ev[r.pos] < 256 {
		p[n] = byte(r.ev[r.pos])
		n++
		r.pos++
	}
	if r.withErr && n > 0 && r.pos < len(r.ev) && r.ev[r.pos] >= 256 {
		e := c18Errs[r.ev[r.pos]-256]
		r.pos++
		return n, e
	}
	return n, nil
}

func c18io(args [][]string) []string {
	switch ai(args[0][0]) {
	case 26:
		if len(args) != 5 || len(args[2]) != 1 || len(args[4]) != 2 {
			return []string{"9"}
		}
		er := &c18EvReader{}
		for _, t := range args[1] {
			v := ai(t)
			if v < 0 || v >= 256+int64(len(c18Errs)) {
				return []string{"9"}
			}
			er.ev = append(er.ev, v)
		}
		ncalls := int(ai(args[2][0]))
		for _, t := range args[3] {
			v := ai(t)
			if v < 0 {
				return []string{"9"}
			}
			er.chunks = append(er.chunks, v)
		}
		bufsize, mode := int(ai(args[4][0])), ai(args[4][1])
		var rd io.Reader = er
		switch mode {
		case 0:
		case 1:
			er.withErr = true
		case 2:
			rd = iotest.OneByteReader(er)
		case 3:
			rd = iotest.HalfReader(er)
		case 4:
			rd = iotest.DataErrReader(er)
		default:
			return []string{"9"}
		}
		br := bufio.NewReaderSize(rd, bufsize)
		type one struct {
			line []byte
			err  error
		}
		var res []one
		for i := 0; i < ncalls; i++ {
			line, err := types.ReadLine(br)
			res = append(res, one{line, err}) // deliberately not copied
		}
		out := []string{"0", oi(int64(len(res)))}
		for _, r := range res {
			switch {
			case r.err == nil:
				out = append(out, "0", oi(int64(len(r.line))))
				out = append(out, ob(r.line)...)
			case r.line == nil:
				out = append(out, "1", oi(c18ErrCode(r.err)))
			default:
				out = append(out, "2", oi(int64(len(r.line))))
				out = append(out, ob(r.line)...)
				out = append(out, oi(c18ErrCode(r.err)))
			}
		}
		return out
	case 27:
		if len(args) != 3 {
			return []string{"9"}
		}
		dir, err := os.MkdirTemp("", "verif-c18-")
		if err != nil {
			panic("badcase:cannot create a scratch directory")
		}
		defer os.RemoveAll(dir)
		fn := filepath.Join(dir, "records")
		if err := os.WriteFile(fn, ab(args[1]), 0o600); err != nil {
			panic("badcase:cannot write " + fn)
		}
		key := ab(args[2])
		idx := cmsys.FileFindRecord(fn, key)
		ex := cmsys.FileExistsRecord(fn, key)
		return ok(oi(int64(idx)), obool(ex))
	}
	return []string{"9"}
}
