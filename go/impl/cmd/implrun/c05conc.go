package main

// C05, op 16 — record-file operations on DIFFERENT files by several goroutines of one process at once (as concurrent
// requests on different boards do):
//
//	16 rounds n1 n2 ... nG | the n1 groups of an op-12 history | the n2 groups of the next | ...
//
// Each history (op-12 format, without refused steps: the file-size limit that provokes those is process-wide) runs on a
// file of its own. First every history runs alone (the sequential answer: status, code and the whole file after every
// step); then one goroutine per history repeats it `rounds` times, all at once; every answer must be the sequential one.
// result: 0, number of differing answers, goroutine and round of the first. No clock decides anything.

import (
	"path/filepath"
	"runtime"
	"strconv"
	"sync"
)

func c05Concurrent(dir string, args [][]string) []string {
	h := args[0]
	if len(h) < 4 {
		return []string{"9"}
	}
	rounds := int(ai(h[1]))
	var hists [][][]string
	pos := 1
	for _, ns := range h[2:] {
		n := int(ai(ns))
		if n < 3 || pos+n > len(args) {
			return []string{"9"}
		}
		g := args[pos : pos+n]
		for k := 3; k+1 < len(g); k += 2 {
			if len(g[k]) != 7 || ai(g[k][1]) != 0 {
				return []string{"9"} // refused steps change a process-wide limit: not in concurrent histories
			}
		}
		hists = append(hists, g)
		pos += n
	}
	if pos != len(args) {
		return []string{"9"}
	}
	file := func(i int) string { return filepath.Join(dir, ".DIR.g"+strconv.Itoa(i)) }
	same := func(a, b []string) bool {
		if len(a) != len(b) {
			return false
		}
		for i := range a {
			if a[i] != b[i] {
				return false
			}
		}
		return true
	}
	want := make([][]string, len(hists))
	for i, g := range hists {
		want[i] = c05History(file(i), g)
		if len(want[i]) == 0 || want[i][0] != "0" {
			return []string{"9"}
		}
	}
	if runtime.GOMAXPROCS(0) < 4 {
		runtime.GOMAXPROCS(4)
	}
	var mu sync.Mutex
	diff, firstG, firstR := 0, -1, -1
	start := make(chan struct{})
	var wg sync.WaitGroup
	for i := range hists {
		wg.Add(1)
		go func(i int) {
			defer wg.Done()
			<-start
			for r := 0; r < rounds; r++ {
				var got []string
				func() {
					defer func() {
						if e := recover(); e != nil {
							got = []string{"1"}
						}
					}()
					got = c05History(file(i), hists[i])
				}()
				if !same(got, want[i]) {
					mu.Lock()
					diff++
					if firstG < 0 {
						firstG, firstR = i, r
					}
					mu.Unlock()
				}
			}
		}(i)
	}
	close(start)
	wg.Wait()
	return []string{"0", strconv.Itoa(diff), strconv.Itoa(firstG), strconv.Itoa(firstR)}
}
