package main

// C01 op 13: RESTARTS. Several runs of a server over one shared-memory key inside this process: each run calls the
// real cache.NewSHM(key, hugetlb, isCreate) the way main does (production mode: cache.IsTest off, so a refused
// NewSHM cannot remove the segment), works on the segment when it was accepted (sets the segment fields Number and
// Loaded) and "exits" (detaches; the segment stays). Before the first run the case may plant the segment a previous
// run left behind - of this build configuration, of the other one (other Size stamp, other allocation), of a C
// pttbbs with other constants: allocation, Version and Size stamps, Number/Loaded at this build's offsets, every
// other byte pseudo-random. An observer attachment that belongs to the driver (another attached process, as far
// as the segment is concerned) snapshots the whole segment before each NewSHM and compares after it.
//
// result: 0, then per run: status code, and 0 (no segment under the key) or
//         1 Version Size Number Loaded k   -- as the observer reads them right after NewSHM, k = number of bytes
//         outside those four fields that differ from the snapshot taken before NewSHM (a segment NewSHM created:
//         from all-zero). A field that lies beyond the allocation of a too-small segment reads as 0.

import (
	"encoding/binary"
	"io"
	"os"
	"syscall"
	"unsafe"

	"github.com/Ptt-official-app/go-pttbbs/cache"
	"github.com/Ptt-official-app/go-pttbbs/ptttype"
	"github.com/Ptt-official-app/go-pttbbs/types"
	"github.com/sirupsen/logrus"
)

const (
	c01IpcCreat = 0o1000
	c01IpcExcl  = 0o2000
	c01IpcRmid  = 0
	c01IpcStat  = 2
)

func c01Shmget(key int, size uintptr, flags int) int {
	id, _, e := syscall.Syscall(syscall.SYS_SHMGET, uintptr(key), size, uintptr(flags))
	if e != 0 {
		return -1
	}
	return int(id)
}

func c01Shmat(id int) unsafe.Pointer {
	a, _, e := syscall.Syscall(syscall.SYS_SHMAT, uintptr(id), 0, 0)
	if e != 0 {
		panic("shmat: " + e.Error())
	}
	return *(*unsafe.Pointer)(unsafe.Pointer(&a)) // the kernel's mapping, not Go memory
}

func c01Shmdt(p unsafe.Pointer) {
	if p != nil {
		syscall.Syscall(syscall.SYS_SHMDT, uintptr(p), 0, 0)
	}
}

// allocation size of the segment (struct shmid_ds, linux/amd64: shm_segsz follows the 48-byte ipc_perm)
func c01ShmSize(id int) int {
	var buf [256]byte
	_, _, e := syscall.Syscall(syscall.SYS_SHMCTL, uintptr(id), c01IpcStat, uintptr(unsafe.Pointer(&buf[0])))
	if e != 0 {
		panic("shmctl(IPC_STAT): " + e.Error())
	}
	return int(binary.LittleEndian.Uint64(buf[48:56]))
}

func c01RemoveKey(key int) {
	if id := c01Shmget(key, 0, 0); id >= 0 {
		syscall.Syscall(syscall.SYS_SHMCTL, uintptr(id), c01IpcRmid, 0)
	}
}

type c01Observer struct {
	addr  unsafe.Pointer
	alloc int
}

func (o *c01Observer) bytes() []byte { return unsafe.Slice((*byte)(o.addr), o.alloc) }

func (o *c01Observer) getI32(off int) int32 {
	if o.addr == nil || off+4 > o.alloc {
		return 0
	}
	return int32(binary.LittleEndian.Uint32(o.bytes()[off : off+4]))
}

func (o *c01Observer) putI32(off int, v int32) {
	if off+4 <= o.alloc {
		binary.LittleEndian.PutUint32(o.bytes()[off:off+4], uint32(v))
	}
}

func c01Restart(args [][]string) []string {
	if len(args) < 3 || len(args[1]) != 2 || len(args[2]) != 6 {
		return []string{"9"}
	}
	logrus.SetLevel(logrus.PanicLevel)
	logrus.SetOutput(io.Discard)
	var raw *cache.SHMRaw
	offs := [4]int{int(unsafe.Offsetof(raw.Version)), int(unsafe.Offsetof(raw.Size)), int(unsafe.Offsetof(raw.Number)), int(unsafe.Offsetof(raw.Loaded))}
	key := 0x58000000 + os.Getpid()%0xffffff

	savedAl, savedShm, savedIsTest := ptttype.SHMALIGNEDSIZE, cache.Shm, cache.IsTest
	ptttype.SHMALIGNEDSIZE, cache.Shm, cache.IsTest = int(ai(args[1][1])), nil, false
	obs := &c01Observer{}
	defer func() {
		if cache.Shm != nil {
			c01Shmdt(cache.Shm.Shmaddr)
		}
		ptttype.SHMALIGNEDSIZE, cache.Shm, cache.IsTest = savedAl, savedShm, savedIsTest
		c01Shmdt(obs.addr)
		c01RemoveKey(key)
	}()
	c01RemoveKey(key)

	if ai(args[2][0]) != 0 { // the segment a previous run left behind
		alloc := int(ai(args[2][1]))
		id := c01Shmget(key, uintptr(alloc), c01IpcCreat|c01IpcExcl|0o600)
		if id < 0 {
			panic("cannot plant the left-over segment")
		}
		obs.addr, obs.alloc = c01Shmat(id), alloc
		b := obs.bytes()
		x := uint64(0x9e3779b97f4a7c15) ^ uint64(alloc)<<20 ^ uint64(ai(args[2][2]))<<7 ^ uint64(ai(args[2][3]))
		for i := 0; i+8 <= len(b); i += 8 {
			x ^= x << 13
			x ^= x >> 7
			x ^= x << 17
			binary.LittleEndian.PutUint64(b[i:], x|0x0101010101010101) // no zero byte: a zeroed field is visible
		}
		for i := 0; i < 4; i++ {
			obs.putI32(offs[i], int32(ai(args[2][2+i])))
		}
	}

	out := []string{"0"}
	for _, r := range args[3:] {
		if len(r) != 3 {
			return []string{"9"}
		}
		var snap []byte
		if obs.addr != nil {
			snap = append([]byte(nil), obs.bytes()...)
		}
		err := cache.NewSHM(types.Key_t(key), ptttype.USE_HUGETLB, ai(r[0]) != 0)
		switch err {
		case nil:
			out = append(out, "0", "0")
		case cache.ErrShmVersion:
			out = append(out, "3", "1")
		case cache.ErrShmSize:
			out = append(out, "3", "2")
		default:
			out = append(out, "3", "5")
		}
		if obs.addr == nil { // did this call create a segment?
			if id := c01Shmget(key, 0, 0); id >= 0 {
				obs.alloc = c01ShmSize(id)
				obs.addr = c01Shmat(id)
				snap = make([]byte, obs.alloc)
			}
		}
		if obs.addr == nil {
			out = append(out, "0")
		} else {
			b := obs.bytes()
			changed := int64(0)
			for i := range b {
				if b[i] != snap[i] {
					changed++
				}
			}
			for _, o := range offs { // the four fields are reported by value
				for i := o; i < o+4 && i < len(b); i++ {
					if b[i] != snap[i] {
						changed--
					}
				}
			}
			out = append(out, "1", oi(int64(obs.getI32(offs[0]))), oi(int64(obs.getI32(offs[1]))), oi(int64(obs.getI32(offs[2]))), oi(int64(obs.getI32(offs[3]))), oi(changed))
		}
		if cache.Shm != nil {
			if err == nil { // the accepted run works on the segment ...
				cache.Shm.Shm.Number = int32(ai(r[1]))
				cache.Shm.Shm.Loaded = int32(ai(r[2]))
			}
			c01Shmdt(cache.Shm.Shmaddr) // ... and the process exits: detached, the segment stays
			cache.Shm = nil
		}
	}
	return out
}
