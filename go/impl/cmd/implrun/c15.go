package main

// C15 — concurrent registrations. A controller (driver "C15") forces interleavings of real
// ptt.SetupNewUser / ptt.NewRegister calls that run as goroutines inside 1..k worker processes
// (driver "C15W", re-exec of this binary) attached to the controller's shared-memory segment,
// passwd semaphore and .PASSWDS, using the verif schedule points in ptt.SetupNewUser
// (reg.checked / reg.locked / reg.beforeUnlock). It returns the observed event trace, the
// per-thread results, lookups, the final SHM index and the ids stored in .PASSWDS; the check
// replays the trace through the Coq model and evaluates the property's predicates on the outputs.

import (
	"bufio"
	"encoding/binary"
	"fmt"
	"io"
	"os"
	"os/exec"
	"path/filepath"
	"strconv"
	"strings"
	"sync"
	"syscall"
	"time"
	"unsafe"

	"github.com/Ptt-official-app/go-pttbbs/cache"
	"github.com/Ptt-official-app/go-pttbbs/cmbbs"
	"github.com/Ptt-official-app/go-pttbbs/ptt"
	"github.com/Ptt-official-app/go-pttbbs/ptttype"
	"github.com/Ptt-official-app/go-pttbbs/types"
	"github.com/sirupsen/logrus"
)

// ------------------------------------------------------------------ worker

func c15ErrCode(err error) int {
	switch err {
	case nil:
		return 0
	case ptttype.ErrUserIDAlreadyExists:
		return 1
	case cache.ErrInvalidUID:
		return 2
	}
	if e, ok := err.(syscall.Errno); ok { // an errno handed through by the cgo wrappers of sem/
		return 100 + int(e)
	}
	return 3
}

func c15Tag(t int) *ptttype.Nickname_t {
	n := &ptttype.Nickname_t{}
	copy(n[:], fmt.Sprintf("T%d", t))
	return n
}

func c15TagOf(n *ptttype.Nickname_t) int {
	if n[0] != 'T' {
		return -1
	}
	t := 0
	for i := 1; i < len(n) && n[i] != 0; i++ {
		if n[i] < '0' || n[i] > '9' {
			return -1
		}
		t = t*10 + int(n[i]-'0')
	}
	return t
}

func c15Worker() {
	in := bufio.NewReader(os.Stdin)
	var outMu sync.Mutex
	emit := func(s string) {
		outMu.Lock()
		fmt.Println(s)
		outMu.Unlock()
	}
	gates := map[int]chan struct{}{}
	var gmu sync.Mutex
	gate := func(t int) chan struct{} {
		gmu.Lock()
		defer gmu.Unlock()
		return gates[t]
	}
	ptt.VerifPointHook = func(name string, user *ptttype.UserecRaw, uid ptttype.UID) {
		if user == nil {
			return
		}
		t := c15TagOf(&user.Nickname)
		g := gate(t)
		if g == nil {
			return
		}
		code := map[string]int{"reg.checked": 1, "reg.locked": 2, "reg.beforeUnlock": 3}[name]
		if code == 0 {
			return
		}
		emit(fmt.Sprintf("ev %d %d %d", t, code, uid))
		<-g
	}
	for {
		line, err := in.ReadString('\n')
		if err != nil {
			return
		}
		f := strings.Fields(line)
		if len(f) == 0 {
			continue
		}
		switch f[0] {
		case "attach": // attach <root> <shmkey> <semkey>
			logrus.SetLevel(logrus.PanicLevel)
			logrus.SetOutput(io.Discard)
			must(os.Chdir(f[1]))
			cache.TestShmKey = types.Key_t(ai(f[2]))
			cmbbs.TestPASSWDSEM_KEY = int(ai(f[3]))
			types.SetIsTest("main")
			ptttype.SetIsTest()
			cache.SetIsTest()
			cmbbs.SetIsTest()
			// the start-up of a bbs process that joins a running site (main_init.go initMain with IS_NEW_SHM false):
			// attach to the shared memory, load the user hash only if nobody has, check the attachment, then
			// cmbbs.PasswdInit() with cmbbs.Sem == nil: the semaphore exists, so this is the attach path
			if err := cache.NewSHM(cache.TestShmKey, ptttype.USE_HUGETLB, false); err != nil {
				emit("fail shm " + err.Error())
				return
			}
			if cache.Shm.Shm.Loaded == 0 {
				if err := cache.LoadUHash(); err != nil {
					emit("fail uhash " + err.Error())
					return
				}
			}
			if err := cache.AttachCheckSHM(); err != nil {
				emit("fail attachcheck " + err.Error())
				return
			}
			if err := cmbbs.PasswdInit(); err != nil {
				emit("fail sem " + err.Error())
				return
			}
			emit("ready")
		case "thr": // thr <tid> <mode> <id bytes...>
			t := int(ai(f[1]))
			mode := int(ai(f[2]))
			id := &ptttype.UserID_t{}
			copy(id[:], ab(f[3:]))
			g := make(chan struct{})
			gmu.Lock()
			gates[t] = g
			gmu.Unlock()
			go func(t, mode int, id *ptttype.UserID_t, g chan struct{}) {
				<-g
				var err error
				uid := ptttype.UID(0)
				if mode == 0 {
					user := &ptttype.UserecRaw{Version: ptttype.PASSWD_VERSION, UserLevel: ptttype.PERM_DEFAULT, Pager: ptttype.PAGER_ON,
						FirstLogin: types.NowTS(), LastLogin: types.NowTS(), NumLoginDays: 1}
					copy(user.UserID[:], id[:])
					copy(user.Nickname[:], c15Tag(t)[:])
					err = ptt.SetupNewUser(user)
				} else {
					ip := &ptttype.IPv4_t{}
					copy(ip[:], "127.0.0.1")
					email := &ptttype.Email_t{}
					copy(email[:], "t@example.invalid")
					uid, _, err = ptt.NewRegister(id, []byte("123123"), ip, email, false, false,
						c15Tag(t), &ptttype.RealName_t{}, &ptttype.Career_t{}, &ptttype.Address_t{}, true)
				}
				emit(fmt.Sprintf("done %d %d %d", t, c15ErrCode(err), uid))
			}(t, mode, id, g)
			emit("ready")
		case "stress": // stress <ngor> <rounds> <ids, length-prefixed>: every goroutine registers every id of the pool <rounds> times, unscheduled
			ngor := int(ai(f[1]))
			rounds := int(ai(f[2]))
			pool := c15Dec(f[3:])
			var slots sync.Map // *UserecRaw -> uid seen at reg.beforeUnlock
			ptt.VerifPointHook = func(name string, user *ptttype.UserecRaw, uid ptttype.UID) {
				if name == "reg.beforeUnlock" {
					slots.Store(user, int(uid))
				}
			}
			stop := make(chan struct{})
			go func() { // a server under load allocates all the time: keep the collector busy
				var sink [][]byte
				for {
					select {
					case <-stop:
						return
					default:
					}
					sink = append(sink, make([]byte, 1<<16))
					if len(sink) > 64 {
						sink = nil
					}
				}
			}()
			var wg sync.WaitGroup
			for g := 0; g < ngor; g++ {
				wg.Add(1)
				go func(g int) {
					defer wg.Done()
					for k := 0; k < rounds*len(pool); k++ {
						j := (k + g) % len(pool)
						user := &ptttype.UserecRaw{Version: ptttype.PASSWD_VERSION, UserLevel: ptttype.PERM_DEFAULT, Pager: ptttype.PAGER_ON,
							FirstLogin: types.NowTS(), LastLogin: types.NowTS(), NumLoginDays: 1}
						copy(user.UserID[:], pool[j])
						err := ptt.SetupNewUser(user)
						uid := 0
						if v, ok := slots.Load(user); ok {
							uid = v.(int)
						}
						emit(fmt.Sprintf("sres %d %d %d %d", g, j, c15ErrCode(err), uid))
					}
				}(g)
			}
			wg.Wait()
			close(stop)
			emit("sdone")
		case "go":
			t := int(ai(f[1]))
			if g := gate(t); g != nil {
				g <- struct{}{}
			}
		case "quit":
			return
		}
	}
}

// ------------------------------------------------------------------ controller

type c15Event struct {
	t, code, v int // code 1..3 = schedule point (v = uid at reg.beforeUnlock), 4 = returned nil (v = uid or 0), 5 = returned error (v = error class)
}

type c15Proc struct {
	cmd *exec.Cmd
	in  io.WriteCloser
}

var c15Env *bbsEnv

// c15Wait: how long the controller waits for something a worker is expected to do (an event, a start-up, an exit) before it
// reports "did not return". The verdict must not depend on how busy the machine is: the check re-runs every case reported as
// hung alone with VERIF_C15_TIMEOUT_SCALE set, and only a hang that persists there counts.
func c15Wait(seconds int) time.Duration {
	scale := 1
	if v := os.Getenv("VERIF_C15_TIMEOUT_SCALE"); v != "" {
		if k, err := strconv.Atoi(v); err == nil && k >= 1 && k <= 100 {
			scale = k
		}
	}
	return time.Duration(seconds*scale) * time.Second
}

// length-prefixed byte strings
func c15Dec(toks []string) [][]byte {
	out := [][]byte{}
	for i := 0; i < len(toks); {
		n := int(ai(toks[i]))
		if n < 0 || i+1+n > len(toks) {
			panic("badcase:strs")
		}
		out = append(out, ab(toks[i+1:i+1+n]))
		i += 1 + n
	}
	return out
}

func c15Enc(ids [][]byte) []string {
	out := []string{}
	for _, id := range ids {
		out = append(out, fmt.Sprint(len(id)))
		out = append(out, ob(id)...)
	}
	return out
}

func c15Cstr(b []byte) []byte {
	for i, c := range b {
		if c == 0 {
			return b[:i]
		}
	}
	return b
}

// c15ResetTable writes a .PASSWDS of MAX_USERS records holding the given ids and reloads shared memory from it.
func c15ResetTable(e *bbsEnv, tab [][]byte) {
	buf := make([]byte, int(ptttype.USEREC_RAW_SZ)*ptttype.MAX_USERS)
	off := int(unsafe.Offsetof(ptttype.USEREC_RAW.UserID))
	for k := 0; k < ptttype.MAX_USERS && k < len(tab); k++ {
		if len(tab[k]) == 0 {
			continue
		}
		rec := buf[k*int(ptttype.USEREC_RAW_SZ) : (k+1)*int(ptttype.USEREC_RAW_SZ)]
		binary.LittleEndian.PutUint32(rec, uint32(ptttype.PASSWD_VERSION))
		copy(rec[off:off+ptttype.IDLEN], tab[k])
	}
	must(os.WriteFile(filepath.Join(e.home, ".PASSWDS"), buf, 0o600))
	// tryCleanUser must stay a no-op (expiry is not part of this property): .fresh is recent
	must(os.WriteFile(filepath.Join(e.home, ".fresh"), []byte(time.Now().String()), 0o600))
	e.reload(false)
}

func c15Tables(e *bbsEnv) (idx, pwd [][]byte) {
	for k := 0; k < ptttype.MAX_USERS; k++ {
		id := cache.Shm.Shm.Userid[k]
		idx = append(idx, append([]byte{}, c15Cstr(id[:])...))
	}
	fb, err := os.ReadFile(filepath.Join(e.home, ".PASSWDS"))
	must(err)
	off := int(unsafe.Offsetof(ptttype.USEREC_RAW.UserID))
	for k := 0; k < ptttype.MAX_USERS; k++ {
		if (k+1)*int(ptttype.USEREC_RAW_SZ) > len(fb) {
			pwd = append(pwd, []byte{})
			continue
		}
		rec := fb[k*int(ptttype.USEREC_RAW_SZ):]
		pwd = append(pwd, append([]byte{}, c15Cstr(rec[off:off+ptttype.IDLEN+1])...))
	}
	return idx, pwd
}

// c15SemVal reads the value of the passwd semaphore (semctl GETVAL) from the controller, which is attached to the
// same semaphore as the workers. The workers are alive whenever this is called: SEM_UNDO adjustments of a worker
// are applied only when it exits and would hide a semaphore that was posted once too often.
func c15SemVal() int {
	v, err := cmbbs.Sem.GetVal(0)
	if err != nil || v < 0 {
		return 255
	}
	return v
}

// one phase of a scenario: its threads (process of each, id of each) and the order in which they are released.
// A phase starts when every call of the previous phase has returned; the shared memory, .PASSWDS, the semaphore
// and the worker processes are the same throughout the scenario.
type c15Phase struct {
	procs []int
	ids   [][]byte
	sched []int // thread numbers local to the phase
}

func c15ParsePhase(procsF, idsF, schedF []string) (*c15Phase, bool) {
	ph := &c15Phase{}
	for _, p := range procsF {
		v := int(ai(p))
		if v < 0 || v > 7 {
			return nil, false
		}
		ph.procs = append(ph.procs, v)
	}
	ph.ids = c15Dec(idsF)
	for _, s := range schedF {
		ph.sched = append(ph.sched, int(ai(s)))
	}
	return ph, len(ph.procs) > 0
}

// case: 1|mode|procs (one per thread)|ids of the threads + the late id|initial table|schedule
// = two phases: the scheduled threads, then one registration of the late id issued after all the others returned
func c15Run(args [][]string) []string {
	if len(args) != 6 || len(args[1]) != 1 {
		return []string{"9"}
	}
	ph, ok := c15ParsePhase(args[2], args[3], args[5])
	if !ok || len(ph.ids) != len(ph.procs)+1 {
		return []string{"9"}
	}
	n := len(ph.procs)
	late := &c15Phase{procs: []int{0}, ids: ph.ids[n:]}
	ph.ids = ph.ids[:n]
	return c15RunPhases(int(ai(args[1][0])), c15Dec(args[4]), []*c15Phase{ph, late})
}

// case: 3|mode|initial table|procs|ids|schedule|procs|ids|schedule|...  — a history: one (procs, ids, schedule) group per phase
func c15RunHistory(args [][]string) []string {
	if len(args) < 6 || (len(args)-3)%3 != 0 || len(args[1]) != 1 {
		return []string{"9"}
	}
	phases := []*c15Phase{}
	for i := 3; i < len(args); i += 3 {
		ph, ok := c15ParsePhase(args[i], args[i+1], args[i+2])
		if !ok || len(ph.ids) != len(ph.procs) {
			return []string{"9"}
		}
		phases = append(phases, ph)
	}
	return c15RunPhases(int(ai(args[1][0])), c15Dec(args[2]), phases)
}

// schedule tokens: t >= 0 releases thread t of the phase; negative tokens are process events
//
//	-(10+p) process p is started now (exec + the normal start-up incl. cmbbs.PasswdInit on the attach path); a process
//	        with such a token anywhere in the history is NOT started up-front, and its threads are created when it joins
//	-(30+p) process p exits normally (os.Exit(0)) whatever its calls are doing
//	-(50+p) process p is killed (SIGKILL)
//
// In both exit cases the kernel applies the SEM_UNDO adjustments of the process; its unfinished calls never return.
func c15Token(s int) (kind, p int) {
	if s >= 0 {
		return 0, s
	}
	v := -s
	switch {
	case v >= 10 && v < 18:
		return 1, v - 10
	case v >= 30 && v < 38:
		return 2, v - 30
	case v >= 50 && v < 58:
		return 3, v - 50
	}
	return -1, 0
}

// result: 0 trace (t code v)* -1 per thread (code value returned-uid)* -1 lookups -1 index ids -1 .PASSWDS ids
// trace codes: 1..3 schedule point, 4 returned nil, 5 returned error, 10 released towards a taken semaphore,
// 11 (t = 99) the semaphore value read by the controller at that moment,
// 12 (t = process) the process finished its start-up and joined, 13 (t = process, v = 0 exit / 1 SIGKILL) the process is gone
// per thread code: 1 returned nil, 2 returned an error, 3 its process went away before it returned (value = the uid it
// had reached reg.beforeUnlock with, i.e. index and .PASSWDS written, else 0), 0 none of these
func c15RunPhases(mode int, tab [][]byte, phases []*c15Phase) []string {
	return c15RunPhasesWith(mode, phases, func() { c15ResetTable(c15Env, tab) }, func() []string {
		idx, pwd := c15Tables(c15Env)
		out := c15Enc(idx)
		out = append(out, "-1")
		return append(out, c15Enc(pwd)...)
	})
}

// c15RunPhasesWith: reset writes .PASSWDS and reloads the shared memory before anything runs; report renders the final
// SHM index and .PASSWDS (dense for the MAX_USERS = 50 tables, sparse for the production-size tables of c15big.go)
func c15RunPhasesWith(mode int, phases []*c15Phase, reset func(), report func() []string) []string {
	e := c15Env
	nproc := 0
	procs := []int{}
	ids := [][]byte{}
	lazy := map[int]bool{}
	for _, ph := range phases {
		for _, p := range ph.procs {
			if p+1 > nproc {
				nproc = p + 1
			}
		}
		for _, s := range ph.sched {
			kind, p := c15Token(s)
			if kind < 0 {
				return []string{"9"}
			}
			if kind >= 1 && p+1 > nproc {
				nproc = p + 1
			}
			if kind == 1 {
				lazy[p] = true
			}
		}
		procs = append(procs, ph.procs...)
		ids = append(ids, ph.ids...)
	}
	n := len(procs) // all threads of all phases, numbered in order
	reset()

	events := make(chan c15Event, 64)
	ws := make([]*c15Proc, nproc)
	waitProc := func(w *c15Proc) {
		done := make(chan struct{})
		go func() { w.cmd.Wait(); close(done) }()
		select {
		case <-done:
		case <-time.After(c15Wait(10)):
			w.cmd.Process.Kill() // SEM_UNDO gives the semaphore back
			<-done
		}
	}
	defer func() {
		for _, w := range ws {
			if w == nil {
				continue
			}
			fmt.Fprintln(w.in, "quit")
			w.in.Close()
			waitProc(w)
		}
	}()
	readies := make([]chan string, nproc)
	startProc := func(p int) string {
		exe, err := os.Executable()
		must(err)
		cmd := exec.Command(exe, "C15W")
		cmd.Env = os.Environ()
		in, _ := cmd.StdinPipe()
		out, _ := cmd.StdoutPipe()
		cmd.Stderr = io.Discard
		must(cmd.Start())
		ws[p] = &c15Proc{cmd, in}
		ready := make(chan string, 8)
		readies[p] = ready
		go func(out io.Reader) {
			sc := bufio.NewScanner(out)
			for sc.Scan() {
				f := strings.Fields(sc.Text())
				if len(f) == 0 {
					continue
				}
				switch f[0] {
				case "ready", "fail":
					ready <- f[0]
				case "ev":
					events <- c15Event{int(ai(f[1])), int(ai(f[2])), int(ai(f[3]))}
				case "done":
					if ai(f[2]) == 0 {
						events <- c15Event{int(ai(f[1])), 4, int(ai(f[3]))}
					} else {
						events <- c15Event{int(ai(f[1])), 5, int(ai(f[2]))}
					}
				}
			}
		}(out)
		fmt.Fprintf(in, "attach %s %d %d\n", e.root, int(cache.TestShmKey), cmbbs.TestPASSWDSEM_KEY)
		select {
		case r := <-ready:
			if r != "ready" {
				return "fail"
			}
		case <-time.After(c15Wait(10)):
			return "hang"
		}
		return ""
	}
	up := make([]bool, nproc)   // started and not gone
	gone := make([]bool, nproc) // exited or killed
	for p := 0; p < nproc; p++ {
		if lazy[p] {
			continue
		}
		switch startProc(p) {
		case "fail":
			return []string{"3", "8"}
		case "hang":
			return []string{"2", "77", "2"}
		}
		up[p] = true
	}
	made := make([]bool, n)
	mkThread := func(t, p int) bool {
		fmt.Fprintf(ws[p].in, "thr %d %d %s\n", t, mode, strings.Join(ob(ids[t]), " "))
		select {
		case <-readies[p]:
			made[t] = true
			return true
		case <-time.After(c15Wait(10)):
			return false
		}
	}

	// phase: 0 not started, 1 passed the existence check, 2 holds the semaphore, 3 before unlock, 4 returned, 5 its process is gone
	phase := make([]int, n)
	pending := make([]bool, n) // released towards PasswdLock while another thread holds the semaphore
	resCode := make([]int, n)  // 1 ok, 2 error, 3 process gone
	resVal := make([]int, n)   // uid observed at reg.beforeUnlock | error class
	retUID := make([]int, n)   // uid returned by NewRegister (mode 1)
	trace := []string{}
	hang := false
	hangWhy := 0
	// status 2 with, for the replay, the reason (1 an expected event did not arrive, 2 a process did not finish its start-up,
	// 3 a worker did not acknowledge a new thread, 4 a call of a later phase did not return by itself) and the trace so far
	hung := func(why int) []string {
		if hangWhy != 0 {
			why = hangWhy
		}
		return append([]string{"2", "77", fmt.Sprint(why)}, trace...)
	}
	sample := func() { trace = append(trace, "99", "11", fmt.Sprint(c15SemVal())) }
	record := func(ev c15Event) {
		if ev.t < 0 || ev.t >= n || phase[ev.t] == 5 {
			return
		}
		switch ev.code {
		case 1, 2, 3:
			phase[ev.t] = ev.code
			pending[ev.t] = false
			if ev.code == 3 {
				resVal[ev.t] = ev.v
			}
		case 4:
			phase[ev.t] = 4
			resCode[ev.t] = 1
			retUID[ev.t] = ev.v
		case 5:
			phase[ev.t] = 4
			resCode[ev.t] = 2
			resVal[ev.t] = ev.v
			pending[ev.t] = false
		}
		trace = append(trace, fmt.Sprint(ev.t), fmt.Sprint(ev.code), fmt.Sprint(ev.v))
	}
	nextEvent := func() (c15Event, bool) {
		select {
		case ev := <-events:
			return ev, true
		case <-time.After(c15Wait(8)):
			hang = true
			return c15Event{}, false
		}
	}
	holder := func() int {
		for u := 0; u < n; u++ {
			if phase[u] == 2 || phase[u] == 3 {
				return u
			}
		}
		return -1
	}
	anyPending := func() bool {
		for _, p := range pending {
			if p {
				return true
			}
		}
		return false
	}
	release := func(t int) {
		if hang || !made[t] || phase[t] >= 4 || pending[t] {
			return
		}
		fmt.Fprintf(ws[procs[t]].in, "go %d\n", t)
		// every path below ends at a moment when all threads are parked (at a gate, in semop, or returned):
		// the semaphore value is read there
		defer func() {
			if !hang {
				sample()
			}
		}()
		if phase[t] == 1 && holder() >= 0 {
			// it blocks in semop(-1): no event until the holder gives the semaphore back
			pending[t] = true
			trace = append(trace, fmt.Sprint(t), "10", "0")
			return
		}
		wasHolder := phase[t] == 2 || phase[t] == 3
		var mine, lock *c15Event
		for {
			if mine != nil {
				needLock := wasHolder && (mine.code == 4 || mine.code == 5) && anyPending()
				if !needLock || lock != nil {
					break
				}
			}
			ev, ok := nextEvent()
			if !ok {
				return
			}
			e2 := ev
			if ev.t == t && mine == nil {
				mine = &e2
			} else if ev.code == 2 && pending[ev.t] && lock == nil {
				lock = &e2 // exactly one queued thread obtains the semaphore; ordered after the release
			} else {
				record(e2) // not predicted: keep the observed order, the model replay decides
			}
		}
		record(*mine)
		if lock != nil {
			record(*lock)
		}
	}
	off, np := 0, 0
	// a process joins while the calls of the others are parked wherever the schedule left them
	join := func(p int) bool {
		if up[p] || gone[p] {
			return true
		}
		switch startProc(p) {
		case "fail":
			return false
		case "hang":
			hang, hangWhy = true, 2
			return false
		}
		up[p] = true
		trace = append(trace, fmt.Sprint(p), "12", "0")
		sample() // right after the newcomer's PasswdInit: nothing else has moved
		for t := off; t < off+np; t++ {
			if procs[t] == p && !made[t] {
				if !mkThread(t, p) {
					hang, hangWhy = true, 3
					return false
				}
			}
		}
		return true
	}
	// a process goes away (exit or SIGKILL) with its calls parked wherever the schedule left them
	leave := func(p int, kill bool) {
		if !up[p] || hang {
			return
		}
		h := holder()
		heldHere := h >= 0 && procs[h] == p
		w := ws[p]
		if kill {
			w.cmd.Process.Kill()
			w.in.Close()
			w.cmd.Wait()
		} else {
			fmt.Fprintln(w.in, "quit")
			w.in.Close()
			waitProc(w)
		}
		ws[p] = nil // reaped: the kernel has applied its SEM_UNDO adjustments
		up[p], gone[p] = false, true
		for t := 0; t < n; t++ {
			if procs[t] == p && phase[t] != 4 && (made[t] || t < off+np) {
				if phase[t] != 3 {
					resVal[t] = 0
				}
				phase[t], pending[t], resCode[t], made[t] = 5, false, 3, true
			}
		}
		k := 0
		if kill {
			k = 1
		}
		trace = append(trace, fmt.Sprint(p), "13", fmt.Sprint(k))
		// the semaphore it held is given back by the kernel: one queued call of another process obtains it - unless the wait
		// of every queued call ends with EINTR instead (semop is not restarted after a signal; an allowed step, the model's
		// Intr): such a call returns its error, is no longer pending, and nobody is left to take the semaphore
		for heldHere && anyPending() {
			ev, ok := nextEvent()
			if !ok {
				return
			}
			got := ev.code == 2 && pending[ev.t]
			record(ev)
			if got {
				break
			}
		}
		sample()
	}
	sample() // before anything runs: the semaphore as PasswdInit left it
	for pi, ph := range phases {
		np = len(ph.procs)
		for t := 0; t < np; t++ {
			if up[ph.procs[t]] && !mkThread(off+t, ph.procs[t]) {
				return hung(3)
			}
		}
		for _, s := range ph.sched {
			switch kind, v := c15Token(s); kind {
			case 0:
				if v < np {
					release(off + v)
				}
			case 1:
				if !join(v) && !hang {
					return []string{"3", "8"}
				}
			case 2, 3:
				leave(v, kind == 3)
			}
			if hang {
				return hung(1)
			}
		}
		for t := off; t < off+np; t++ { // the threads of a process that never came up cannot run: bad case
			if !made[t] && !gone[ph.procs[t]] {
				return []string{"9"}
			}
			if !made[t] { // its process went away before the call was issued
				phase[t], resCode[t], made[t] = 5, 3, true
			}
		}
		for guard := 0; guard < 10*np+10 && !hang; guard++ {
			moved := false
			for t := off; t < off+np; t++ {
				if phase[t] < 4 && !pending[t] {
					release(t)
					moved = true
				}
			}
			if !moved {
				break
			}
		}
		if hang {
			return hung(1)
		}
		if pi > 0 { // a phase issued after all earlier calls returned must complete by itself
			for t := off; t < off+np; t++ {
				if phase[t] < 4 {
					return hung(4)
				}
			}
		}
		sample() // end of the phase: no call is in flight
		off += np
	}

	out := append([]string{"0"}, trace...)
	out = append(out, "-1")
	for t := 0; t < n; t++ {
		out = append(out, fmt.Sprint(resCode[t]), fmt.Sprint(resVal[t]), fmt.Sprint(retUID[t]))
	}
	out = append(out, "-1")
	for t := 0; t < n; t++ { // what the index answers for each requested id now
		id := &ptttype.UserID_t{}
		copy(id[:], ids[t])
		uid, _ := cache.SearchUserRaw(id, nil)
		out = append(out, fmt.Sprint(int(uid)))
	}
	out = append(out, "-1")
	return append(out, report()...)
}

// case: 2|nproc ngor [njoin rounds]|id pool|initial table  — unscheduled stress: nproc processes x ngor goroutines, each registering every id
// (rounds times); njoin further processes run the normal start-up (cmbbs.PasswdInit on the attach path) once the others have been
// told to start, i.e. while those registrations are in flight, and then do the same work
// result: 0 (proc gor idindex code uid)* -1 index ids -1 .PASSWDS ids -1 semaphore value after all calls returned (workers still alive)
func c15Stress(args [][]string) []string {
	if len(args) != 4 || (len(args[1]) != 2 && len(args[1]) != 4) {
		return []string{"9"}
	}
	e := c15Env
	nproc, ngor := int(ai(args[1][0])), int(ai(args[1][1]))
	if nproc < 1 || nproc > 8 || ngor < 1 || ngor > 64 {
		return []string{"9"}
	}
	nfirst, rounds := nproc, 1
	if len(args[1]) == 4 {
		nj := int(ai(args[1][2]))
		rounds = int(ai(args[1][3]))
		if nj < 0 || nj > 4 || rounds < 1 || rounds > 100 {
			return []string{"9"}
		}
		nproc += nj
	}
	pool := c15Dec(args[2])
	c15ResetTable(e, c15Dec(args[3]))
	exe, err := os.Executable()
	must(err)
	type wres struct {
		lines []string
		ok    bool
	}
	resc := make(chan wres, nproc)
	sdone := make(chan int, nproc)
	ws := make([]*c15Proc, nproc)
	starts := make([]chan bool, nproc)
	spawn := func(p int) {
		cmd := exec.Command(exe, "C15W")
		cmd.Env = os.Environ()
		in, _ := cmd.StdinPipe()
		out, _ := cmd.StdoutPipe()
		cmd.Stderr = io.Discard
		must(cmd.Start())
		ws[p] = &c15Proc{cmd, in}
		starts[p] = make(chan bool, 1)
		go func(p int, out io.Reader) {
			sc := bufio.NewScanner(out)
			r := wres{}
			for sc.Scan() {
				f := strings.Fields(sc.Text())
				if len(f) == 0 {
					continue
				}
				switch f[0] {
				case "ready":
					starts[p] <- true
				case "fail":
					starts[p] <- false
				case "sres":
					r.lines = append(r.lines, fmt.Sprint(p), f[1], f[2], f[3], f[4])
				case "sdone":
					r.ok = true
					sdone <- p
				}
			}
			resc <- r
		}(p, out)
	}
	attach := func(p int) { // the start-up of process p: attach the shared memory, cmbbs.PasswdInit
		fmt.Fprintf(ws[p].in, "attach %s %d %d\n", e.root, int(cache.TestShmKey), cmbbs.TestPASSWDSEM_KEY)
	}
	for p := 0; p < nproc; p++ { // the joiners are exec'ed now but start up (attach) only when the others are at work
		spawn(p)
		if p < nfirst {
			attach(p)
		}
	}
	kill := func() {
		for _, w := range ws {
			if w == nil {
				continue
			}
			w.in.Close()
			w.cmd.Process.Kill()
			w.cmd.Wait()
		}
	}
	waitStart := func(p int) string {
		select {
		case okk := <-starts[p]:
			if !okk {
				return "fail"
			}
		case <-time.After(c15Wait(10)):
			return "hang"
		}
		return ""
	}
	for p := 0; p < nfirst; p++ {
		switch waitStart(p) {
		case "fail":
			kill()
			return []string{"3", "8"}
		case "hang":
			kill()
			return []string{"2"}
		}
	}
	for p := 0; p < nfirst; p++ { // start them as simultaneously as possible
		fmt.Fprintf(ws[p].in, "stress %d %d %s\n", ngor, rounds, strings.Join(c15Enc(pool), " "))
	}
	for p := nfirst; p < nproc; p++ { // the joiners start up while the registrations of the others are in flight
		time.Sleep(time.Duration(1+p-nfirst) * time.Millisecond)
		attach(p)
		switch waitStart(p) {
		case "fail":
			kill()
			return []string{"3", "8"}
		case "hang":
			kill()
			return []string{"2"}
		}
		fmt.Fprintf(ws[p].in, "stress %d %d %s\n", ngor, rounds, strings.Join(c15Enc(pool), " "))
	}
	out := []string{"0"}
	hang := false
	for p := 0; p < nproc && !hang; p++ { // every call of every worker has returned; the workers stay alive
		select {
		case <-sdone:
		case <-time.After(c15Wait(40)):
			hang = true
		}
	}
	semval := c15SemVal() // read before any worker exits (SEM_UNDO)
	for p := 0; p < nproc; p++ {
		fmt.Fprintln(ws[p].in, "quit")
	}
	for p := 0; p < nproc && !hang; p++ {
		select {
		case r := <-resc:
			out = append(out, r.lines...)
			if !r.ok {
				hang = true
			}
		case <-time.After(c15Wait(10)):
			hang = true
		}
		if hang {
			break
		}
	}
	kill()
	if hang {
		return []string{"2"}
	}
	out = append(out, "-1")
	idx, pwd := c15Tables(e)
	out = append(out, c15Enc(idx)...)
	out = append(out, "-1")
	out = append(out, c15Enc(pwd)...)
	out = append(out, "-1", fmt.Sprint(semval))
	return out
}

func init() {
	register("C15", &propDriver{
		setup:    func() { c15Env = newBBSEnv("ptt", false) },
		teardown: func() { c15Env.close() },
		run: func(args [][]string) []string {
			switch ai(args[0][0]) {
			case 1:
				return c15Run(args)
			case 2:
				return c15Stress(args)
			case 3:
				return c15RunHistory(args)
			case 4:
				return c15RunBig(args)
			case 5:
				return c15SameBucket(args)
			case 6:
				return c15Sweep(args)
			}
			return []string{"9"}
		}})
	register("C15W", &propDriver{setup: func() { c15Worker(); os.Exit(0) }, run: func(args [][]string) []string { return []string{"9"} }})
}
