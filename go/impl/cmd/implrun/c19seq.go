package main

// C19, op 8 — several Saves of several users in ONE process, some of them refused after the
// serialisation has started. Every step builds a fresh tree from its script and calls FavRaw.Save:
//
//	8 | 81 u kind k e idx plen path... | script groups ... | 81 ... | script ... | ...
//
//	kind 0  an ordinary Save of user u
//	kind 1  the entry idx of the folder at path (a board or a line) carries the payload of the other
//	        kind: WriteFavrec has written everything before it plus its type and attr bytes (k bytes
//	        of the image) when it returns ErrInvalidFavBoard / ErrInvalidFavLine
//	kind 2  the user's home directory is missing while Save runs: the temporary file cannot be created
//	kind 3  RLIMIT_FSIZE = k while Save runs: the write that passes byte k of the temporary file fails
//	        (EFBIG; SIGXFSZ ignored), k bytes of the image are in the temporary file
//
// k and e (the expected error code) are for the model; the driver reports what happened.
// After each step: the tree before Save, status (+ returned tree), the temporary file the step left
// behind, .fav of EVERY user. At the end fav.Load of every user.
// The whole case runs with GOMAXPROCS(1) and the collector off, so that process-wide caches
// (sync.Pool, free lists) hand a later Save exactly what an earlier, refused one put back.

import (
	"os"
	"os/signal"
	"path/filepath"
	"runtime"
	"runtime/debug"
	"strconv"
	"strings"
	"sync"
	"syscall"
	"time"

	"github.com/Ptt-official-app/go-pttbbs/ptt/fav"
	"github.com/Ptt-official-app/go-pttbbs/ptttype"
	"github.com/Ptt-official-app/go-pttbbs/types"
)

var (
	c19SeqNames   = []string{"seqa", "seqb", "seqc", "seqd"}
	c19IgnoreXFSZ sync.Once
)

func c19SeqUID(u int64) *ptttype.UserID_t {
	id := &ptttype.UserID_t{}
	copy(id[:], c19SeqNames[u])
	return id
}

func c19SeqDir(u int64) string { return filepath.Join(c19Root, "home", "s", c19SeqNames[u]) }

func c19SeqFile(u int64) []string {
	b, err := os.ReadFile(filepath.Join(c19SeqDir(u), fav.FAV))
	if err != nil {
		return []string{"-1"}
	}
	return append([]string{strconv.Itoa(len(b))}, ob(b)...)
}

func c19SeqTmpNames(u int64) map[string]bool {
	out := map[string]bool{}
	ents, _ := os.ReadDir(c19SeqDir(u))
	for _, e := range ents {
		if strings.HasPrefix(e.Name(), fav.FAV+".tmp.") {
			out[e.Name()] = true
		}
	}
	return out
}

type c19SeqStep struct {
	hdr    []string
	script [][]string
}

func c19SeqSave(f *fav.FavRaw, u, kind, k int64) (ret *fav.FavRaw, err error) {
	switch kind {
	case 2:
		away := c19SeqDir(u) + ".away"
		must(os.Rename(c19SeqDir(u), away))
		defer func() { must(os.Rename(away, c19SeqDir(u))) }()
	case 3:
		c19IgnoreXFSZ.Do(func() { signal.Ignore(syscall.SIGXFSZ) })
		var old syscall.Rlimit
		must(syscall.Getrlimit(syscall.RLIMIT_FSIZE, &old))
		lim := old
		lim.Cur = uint64(k)
		must(syscall.Setrlimit(syscall.RLIMIT_FSIZE, &lim))
		defer func() { must(syscall.Setrlimit(syscall.RLIMIT_FSIZE, &old)) }()
	}
	return f.Save(c19SeqUID(u))
}

func c19RunSeq(args [][]string) []string {
	// split into steps
	var steps []*c19SeqStep
	for _, g := range args[1:] {
		if len(g) > 0 && g[0] == "81" {
			if len(g) < 7 {
				panic("badcase:hdr")
			}
			steps = append(steps, &c19SeqStep{hdr: g[1:]})
			continue
		}
		if len(steps) == 0 {
			panic("badcase:script before the first step")
		}
		steps[len(steps)-1].script = append(steps[len(steps)-1].script, g)
	}
	nu := int64(len(c19SeqNames))
	os.RemoveAll(filepath.Join(c19Root, "home", "s"))
	for u := int64(0); u < nu; u++ {
		must(os.MkdirAll(c19SeqDir(u), 0o755))
	}
	procs := runtime.GOMAXPROCS(1)
	gc := debug.SetGCPercent(-1)
	defer func() {
		debug.SetGCPercent(gc)
		runtime.GOMAXPROCS(procs)
	}()

	out := []string{"0", strconv.Itoa(len(steps))}
	for _, st := range steps {
		u, kind, k := ai(st.hdr[0]), ai(st.hdr[1]), ai(st.hdr[2])
		idx, plen := ai(st.hdr[4]), ai(st.hdr[5])
		if u < 0 || u >= nu || kind < 0 || kind > 3 || k < 0 || plen < 0 || int64(len(st.hdr)) != 6+plen {
			panic("badcase:hdr")
		}
		f, _ := c19Build(st.script)
		pre := c19Dump(f, nil)
		out = append(out, strconv.Itoa(len(pre)))
		out = append(out, pre...)
		if kind == 1 {
			fd := c19Folder(f, st.hdr[6:])
			if idx < 0 || idx >= int64(len(fd.Favh)) {
				panic("badcase:idx")
			}
			switch fd.Favh[idx].TheType {
			case fav.FAVT_BOARD:
				fd.Favh[idx].Fp = &fav.FavLine{Lid: 1}
			case fav.FAVT_LINE:
				fd.Favh[idx].Fp = &fav.FavBoard{Bid: 1}
			default:
				panic("badcase:kind of the entry")
			}
		}
		f.MTime = types.Time4(c19T0 + 1)
		before := c19SeqTmpNames(u)
		ret, err := c19SeqSave(f, u, kind, k)
		if err != nil {
			out = append(out, "3", strconv.Itoa(c19ErrCode(err)))
		} else {
			if ret == nil {
				panic("Save returned nil, nil")
			}
			d := c19Dump(ret, nil)
			out = append(out, "0", strconv.Itoa(len(d)))
			out = append(out, d...)
			t := time.Unix(c19T0, 0)
			must(os.Chtimes(filepath.Join(c19SeqDir(u), fav.FAV), t, t))
		}
		// the temporary file this step left behind
		var left []string
		for n := range c19SeqTmpNames(u) {
			if !before[n] {
				left = append(left, n)
			}
		}
		switch len(left) {
		case 0:
			out = append(out, "-1")
		case 1:
			b, rerr := os.ReadFile(filepath.Join(c19SeqDir(u), left[0]))
			must(rerr)
			out = append(out, strconv.Itoa(len(b)))
			out = append(out, ob(b)...)
		default:
			out = append(out, "-2") // more than one new temporary file
		}
		for v := int64(0); v < nu; v++ {
			out = append(out, c19SeqFile(v)...)
		}
	}
	for v := int64(0); v < nu; v++ {
		out = append(out, c19SeqLoad(v)...)
	}
	os.RemoveAll(filepath.Join(c19Root, "home", "s"))
	return out
}

func c19SeqLoad(v int64) (out []string) {
	defer func() {
		if r := recover(); r != nil {
			out = []string{"1"}
		}
	}()
	f, err := fav.Load(c19SeqUID(v))
	if err != nil {
		return errs(c19ErrCode(err))
	}
	if f == nil {
		return []string{"0", "-1"}
	}
	d := c19Dump(f, nil)
	return append([]string{"0", strconv.Itoa(len(d))}, d...)
}
