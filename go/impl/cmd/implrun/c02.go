package main

import (
	"github.com/Ptt-official-app/go-pttbbs/cmbbs"
	"github.com/Ptt-official-app/go-pttbbs/crypt"
)

func init() {
	register("C02", &propDriver{run: func(args [][]string) []string {
		switch ai(args[0][0]) {
		case 1: // crypt.Fcrypt(pw, salt)
			h, err := crypt.Fcrypt(ab(args[1]), ab(args[2]))
			if err != nil {
				return errs(1)
			}
			return okb(h)
		case 2: // cmbbs.GenPasswd(pw); a third group (the salt read back for the model) is ignored
			h, err := cmbbs.GenPasswd(ab(args[1]))
			if err != nil {
				return errs(1)
			}
			return okb(h[:])
		case 3: // cmbbs.CheckPasswd(stored, pw)
			good, err := cmbbs.CheckPasswd(ab(args[1]), ab(args[2]))
			if err != nil {
				return errs(1)
			}
			return ok(obool(good))
		}
		return []string{"9"}
	}})
}
