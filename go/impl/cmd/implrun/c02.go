package main

import (
	"github.com/Ptt-official-app/go-pttbbs/cmbbs"
	"github.com/Ptt-official-app/go-pttbbs/crypt"
)

func init() {
	register("C02", &propDriver{teardown: c02AcctTeardown, run: func(args [][]string) []string {
		switch ai(args[0][0]) {
		case 1: // crypt.Fcrypt(pw, salt)
			h, err := crypt.Fcrypt(ab(args[1]), ab(args[2]))
			if err != nil {
				return errs(1)
			}
			return okb(h)
		case 2: // cmbbs.GenPasswd(pw); a third group (the salt read back for the model) is ignored
			h, err := cmbbs.GenPasswd(ab(args[1]))
			if err != nil {
				return errs(1)
			}
			return okb(h[:])
		case 3: // cmbbs.CheckPasswd(stored, pw)
			good, err := cmbbs.CheckPasswd(ab(args[1]), ab(args[2]))
			if err != nil {
				return errs(1)
			}
			return ok(obool(good))
		case 5: // a session of calls whose results are kept, not copied (c02_session.go)
			return c02session(args[1:])
		case 6: // the same calls from concurrent goroutines (c02_session.go)
			if len(args) < 2 || len(args[1]) != 1 {
				return []string{"9"}
			}
			return c02concurrent(int(ai(args[1][0])), args[2:])
		case 7: // a history of account operations through bbs.* / the gin handlers (c02_accounts.go)
			return c02accounts(args[1:], false)
		case 8: // the same history, the stored hashes observed through probe passwords instead of their bytes
			return c02accounts(args[1:], true)
		}
		return []string{"9"}
	}})
}
