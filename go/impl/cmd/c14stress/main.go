// c14stress: 2 processes x 16 goroutines append to one record file (run with -race).
// Every call must either fail or return a distinct index holding its record; the file must be
// initial + one record per success; a final append must succeed.
// Second use after an I/O error: every 8th call of a goroutine is preceded by an append to /dev/full (the write(2) is
// refused with ENOSPC, as on a full volume); such a call must fail and must leave nothing behind for the calls after it.
package main

import (
	"encoding/binary"
	"errors"
	"fmt"
	"os"
	"os/exec"
	"path/filepath"
	"strconv"
	"strings"
	"sync"
	"syscall"

	"github.com/Ptt-official-app/go-pttbbs/cmsys"
)

const sz = 16

// a write(2) to this file is refused with ENOSPC
func refusesWrites(p string) bool {
	f, err := os.OpenFile(p, os.O_WRONLY, 0)
	if err != nil {
		return false
	}
	defer f.Close()
	_, err = f.Write([]byte{1})
	return errors.Is(err, syscall.ENOSPC)
}

// the "full" device (1:7) under a private name: a node of its own if mknod is permitted, else a symbolic link to /dev/full.
// The code under test never gets the path /dev/full itself (a tree that unlinks what it appends to would destroy the node).
func makeFull(dir string) string {
	p := filepath.Join(dir, ".DIR.full")
	if err := syscall.Mknod(p, syscall.S_IFCHR|0o666, 1<<8|7); err == nil {
		if refusesWrites(p) {
			return p
		}
		os.Remove(p)
	}
	os.Symlink("/dev/full", p)
	return p
}

func worker(file string, proc int, per int) {
	full := filepath.Join(filepath.Dir(file), ".DIR.full")
	refuses := refusesWrites(full)
	var wg sync.WaitGroup
	var mu sync.Mutex
	res := []string{}
	nRefused := 0 // calls that failed in their write(2) with ENOSPC
	for g := 0; g < 16; g++ {
		wg.Add(1)
		go func(g int) {
			defer wg.Done()
			for k := 0; k < per; k++ {
				rec := make([]byte, sz)
				binary.LittleEndian.PutUint32(rec[0:], uint32(proc))
				binary.LittleEndian.PutUint32(rec[4:], uint32(g))
				binary.LittleEndian.PutUint32(rec[8:], uint32(k))
				binary.LittleEndian.PutUint32(rec[12:], 0xfeedbeef)
				if refuses && k%8 == 0 {
					lost := make([]byte, sz) // never stored anywhere: must not show up in the record file
					copy(lost, rec)
					binary.LittleEndian.PutUint32(lost[12:], 0xdeadf011)
					_, err := cmsys.AppendRecord(full, lost, sz)
					mu.Lock()
					if err == nil {
						res = append(res, "REFUSED-WRITE-REPORTED-AS-SUCCESS")
					} else if errors.Is(err, syscall.ENOSPC) {
						nRefused++
					}
					mu.Unlock()
				}
				idx, err := cmsys.AppendRecord(file, rec, sz)
				if err == nil {
					mu.Lock()
					res = append(res, fmt.Sprintf("%d %d %d %d", proc, g, k, idx))
					mu.Unlock()
				}
			}
		}(g)
	}
	wg.Wait()
	res = append(res, fmt.Sprintf("REFUSED %d", nRefused))
	fmt.Println(strings.Join(res, "\n"))
}

func main() {
	if len(os.Args) > 1 && os.Args[1] == "worker" {
		p, _ := strconv.Atoi(os.Args[3])
		n, _ := strconv.Atoi(os.Args[4])
		worker(os.Args[2], p, n)
		return
	}
	os.Exit(run()) // run's deferred clean-up happens on the FAIL paths as well
}

func run() int {
	dir, _ := os.MkdirTemp("", "verifc14s")
	defer os.RemoveAll(dir)
	file := filepath.Join(dir, ".DIR")
	os.WriteFile(file, make([]byte, sz), 0o644)
	makeFull(dir)
	outs := make([][]byte, 2)
	errs := make([]error, 2)
	var wg sync.WaitGroup
	for p := 0; p < 2; p++ {
		wg.Add(1)
		go func(p int) {
			defer wg.Done()
			cmd := exec.Command(os.Args[0], "worker", file, strconv.Itoa(p), "300")
			cmd.Stderr = os.Stderr
			outs[p], errs[p] = cmd.Output()
		}(p)
	}
	wg.Wait()
	for p := 0; p < 2; p++ {
		if errs[p] != nil {
			fmt.Println("FAIL worker", p, errs[p]) // the race detector makes the worker exit non-zero
			return 1
		}
	}
	fb, _ := os.ReadFile(file)
	seen := map[int]bool{}
	succ := 0
	refused := 0
	for p := 0; p < 2; p++ {
		for _, l := range strings.Split(strings.TrimSpace(string(outs[p])), "\n") {
			if l == "" {
				continue
			}
			if l == "REFUSED-WRITE-REPORTED-AS-SUCCESS" {
				fmt.Println("FAIL an append whose write the OS refused (ENOSPC) returned without error")
				return 1
			}
			if strings.HasPrefix(l, "REFUSED ") {
				var k int
				fmt.Sscanf(l, "REFUSED %d", &k)
				refused += k
				continue
			}
			var pp, g, k, idx int
			fmt.Sscanf(l, "%d %d %d %d", &pp, &g, &k, &idx)
			succ++
			if seen[idx] {
				fmt.Println("FAIL index returned twice:", idx)
				return 1
			}
			seen[idx] = true
			off := (idx - 1) * sz
			if idx < 2 || off+sz > len(fb) || binary.LittleEndian.Uint32(fb[off:]) != uint32(pp) || binary.LittleEndian.Uint32(fb[off+4:]) != uint32(g) ||
				binary.LittleEndian.Uint32(fb[off+8:]) != uint32(k) || binary.LittleEndian.Uint32(fb[off+12:]) != 0xfeedbeef {
				if off+sz <= len(fb) && binary.LittleEndian.Uint32(fb[off+12:]) == 0xdeadf011 {
					fmt.Println("FAIL the record at returned index", idx, "is the record of a call that had failed (write refused by the OS, other file)")
					return 1
				}
				fmt.Println("FAIL record not intact at index", idx)
				return 1
			}
		}
	}
	if len(fb) != sz*(1+succ) {
		fmt.Printf("FAIL file length %d != %d\n", len(fb), sz*(1+succ))
		return 1
	}
	if _, err := cmsys.AppendRecord(file, make([]byte, sz), sz); err != nil {
		fmt.Println("FAIL late append:", err)
		return 1
	}
	fmt.Printf("ok: %d successes of %d calls, %d bytes, %d more calls failed in their write (ENOSPC, other file), no race report\n", succ, 2*16*300, len(fb), refused)
	return 0
}
