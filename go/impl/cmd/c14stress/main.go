// c14stress: 2 processes x 16 goroutines append to one record file (run with -race).
// Every call must either fail or return a distinct index holding its record; the file must be
// initial + one record per success; a final append must succeed.
package main

import (
	"encoding/binary"
	"fmt"
	"os"
	"os/exec"
	"path/filepath"
	"strconv"
	"strings"
	"sync"

	"github.com/Ptt-official-app/go-pttbbs/cmsys"
)

const sz = 16

func worker(file string, proc int, per int) {
	var wg sync.WaitGroup
	var mu sync.Mutex
	res := []string{}
	for g := 0; g < 16; g++ {
		wg.Add(1)
		go func(g int) {
			defer wg.Done()
			for k := 0; k < per; k++ {
				rec := make([]byte, sz)
				binary.LittleEndian.PutUint32(rec[0:], uint32(proc))
				binary.LittleEndian.PutUint32(rec[4:], uint32(g))
				binary.LittleEndian.PutUint32(rec[8:], uint32(k))
				binary.LittleEndian.PutUint32(rec[12:], 0xfeedbeef)
				idx, err := cmsys.AppendRecord(file, rec, sz)
				if err == nil {
					mu.Lock()
					res = append(res, fmt.Sprintf("%d %d %d %d", proc, g, k, idx))
					mu.Unlock()
				}
			}
		}(g)
	}
	wg.Wait()
	fmt.Println(strings.Join(res, "\n"))
}

func main() {
	if len(os.Args) > 1 && os.Args[1] == "worker" {
		p, _ := strconv.Atoi(os.Args[3])
		n, _ := strconv.Atoi(os.Args[4])
		worker(os.Args[2], p, n)
		return
	}
	dir, _ := os.MkdirTemp("", "verifc14s")
	defer os.RemoveAll(dir)
	file := filepath.Join(dir, ".DIR")
	os.WriteFile(file, make([]byte, sz), 0o644)
	outs := make([][]byte, 2)
	errs := make([]error, 2)
	var wg sync.WaitGroup
	for p := 0; p < 2; p++ {
		wg.Add(1)
		go func(p int) {
			defer wg.Done()
			cmd := exec.Command(os.Args[0], "worker", file, strconv.Itoa(p), "300")
			cmd.Stderr = os.Stderr
			outs[p], errs[p] = cmd.Output()
		}(p)
	}
	wg.Wait()
	for p := 0; p < 2; p++ {
		if errs[p] != nil {
			fmt.Println("FAIL worker", p, errs[p]) // the race detector makes the worker exit non-zero
			os.Exit(1)
		}
	}
	fb, _ := os.ReadFile(file)
	seen := map[int]bool{}
	succ := 0
	for p := 0; p < 2; p++ {
		for _, l := range strings.Split(strings.TrimSpace(string(outs[p])), "\n") {
			if l == "" {
				continue
			}
			var pp, g, k, idx int
			fmt.Sscanf(l, "%d %d %d %d", &pp, &g, &k, &idx)
			succ++
			if seen[idx] {
				fmt.Println("FAIL index returned twice:", idx)
				os.Exit(1)
			}
			seen[idx] = true
			off := (idx - 1) * sz
			if idx < 2 || off+sz > len(fb) || binary.LittleEndian.Uint32(fb[off:]) != uint32(pp) || binary.LittleEndian.Uint32(fb[off+4:]) != uint32(g) ||
				binary.LittleEndian.Uint32(fb[off+8:]) != uint32(k) || binary.LittleEndian.Uint32(fb[off+12:]) != 0xfeedbeef {
				fmt.Println("FAIL record not intact at index", idx)
				os.Exit(1)
			}
		}
	}
	if len(fb) != sz*(1+succ) {
		fmt.Printf("FAIL file length %d != %d\n", len(fb), sz*(1+succ))
		os.Exit(1)
	}
	if _, err := cmsys.AppendRecord(file, make([]byte, sz), sz); err != nil {
		fmt.Println("FAIL late append:", err)
		os.Exit(1)
	}
	fmt.Printf("ok: %d successes of %d calls, %d bytes, no race report\n", succ, 2*16*300, len(fb))
}
