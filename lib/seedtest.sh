#!/bin/bash
# lib/seedtest.sh <patch.diff> <property id>...   — applies a seeded change to /repo, runs the quick checks, restores /repo.
# Evidence files written meanwhile are restored from git afterwards (evidence must come from the clean tree).
set -u
cd "$(dirname "$0")/.."
patch="$1"; shift
if ! git -C /repo diff --quiet; then echo "seedtest: /repo has local changes, refusing"; exit 2; fi
git -C /repo apply "$patch" || { echo "seedtest: patch does not apply"; exit 2; }
rc=0
for id in "$@"; do
  echo "== $id with $(basename $(dirname $patch))/$(basename $patch)"
  timeout 1200 ./check "$id" --tier quick 2>&1 | grep -E "^(VIOLATION|KNOWN-FINDING|#|$id:)" | cut -c1-400
  r=${PIPESTATUS[0]}
  [ "$r" != 0 ] && rc=1
done
git -C /repo checkout -- . 
git -C /repo status --short | grep -v '^??' 
git checkout -- evidence 2>/dev/null
exit $rc
