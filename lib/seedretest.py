#!/usr/bin/env python3
"""lib/seedretest.py [ids...] — re-run the quick check(s) against every seeded change on the current /verif and /repo (or the copies named by SEED_ROOT / SEED_REPO: lib/seedretest_par.sh)
(apply, check, restore) and record the outcome as "final" in seeded/<id>/<seed>/meta.json."""
import json, os, subprocess, sys, re, glob
ROOT = os.environ.get("SEED_ROOT", "/verif")
REPO = os.environ.get("SEED_REPO", "/repo")
os.environ["VERIF_REPO"] = REPO
extra = {"C01-b2": ["C20"], "C12-d2": ["C05"], "C05-d1": ["C14"], "C10-d2": ["C06"], "C11-d1": ["C18"]}   # changes that a sibling property's check reports
ids = sys.argv[1:]
for d in sorted(glob.glob(os.path.join(ROOT, "seeded", "*", "*"))):
    name = os.path.basename(d); pid = name.split("-")[0]
    if ids and pid not in ids:
        continue
    if subprocess.run("git -C %s diff --quiet" % REPO, shell=True).returncode:
        print("repo dirty"); sys.exit(2)
    r = subprocess.run(["git", "-C", REPO, "apply", "--3way", os.path.join(d, "patch.diff")], stdout=subprocess.PIPE, stderr=subprocess.STDOUT, text=True)
    subprocess.run("git -C %s reset -q" % REPO, shell=True)
    if r.returncode:
        print(name, "patch does not apply"); subprocess.run("git -C %s checkout -- ." % REPO, shell=True); continue
    res = {}
    for cid in [pid] + extra.get(name, []):
        p = subprocess.run(["timeout", "-k", "5", "1500", "./check", cid, "--tier", "quick"], cwd=ROOT, stdout=subprocess.PIPE, stderr=subprocess.STDOUT, text=True)
        viol = [re.sub(r"replay=\S*/", "replay=", l) for l in p.stdout.split("\n") if l.startswith("VIOLATION")]
        what = [l[2:220] for l in p.stdout.split("\n") if l.startswith("# ")]
        res[cid] = {"exit": p.returncode, "violations": viol, "what": what[:3]}
    subprocess.run("git -C %s checkout -- ." % REPO, shell=True)
    subprocess.run("git checkout -- evidence", shell=True, cwd=ROOT)
    caught = [c for c, v in res.items() if v["exit"] == 1 and any("no-failing-input-found" not in x for x in v["violations"])]
    weak = [c for c, v in res.items() if v["exit"] == 1 and v["violations"] and c not in caught]
    m = json.load(open(os.path.join(d, "meta.json")))
    m["final"] = {"caught_by": caught, "caught_without_failing_input_by": weak, "checks": res}
    json.dump(m, open(os.path.join(d, "meta.json"), "w"), indent=1)
    print("%s: %s" % (name, ("caught by " + ",".join(caught)) if caught else (("only no-failing-input by " + ",".join(weak)) if weak else "MISSED")), "|", "; ".join(w[:100] for v in res.values() for w in v["what"][:1]))
