#!/usr/bin/env python3
"""Composes MANIFEST.json, MANIFEST.hooks and KNOWN_FINDINGS.txt from the per-property fragments
manifest/<id>.json, hooks/*.txt and findings/*.txt (so that per-property work never edits shared files)."""
import json, os, glob
ROOT = os.path.dirname(os.path.dirname(os.path.abspath(__file__)))
props = [json.loads(l) for l in open(os.path.join(ROOT, "properties.jsonl"))]
frags = {}
for f in sorted(glob.glob(os.path.join(ROOT, "manifest", "C*.json"))):
    frags[os.path.basename(f)[:-5]] = json.load(open(f))
hook_lines, commits = [], []
for f in sorted(glob.glob(os.path.join(ROOT, "hooks", "*.txt"))):
    for l in open(f):
        l = l.rstrip("\n")
        if l.strip() and not l.startswith("#"):
            hook_lines.append(l)
            commits.append(l.split()[0])
m = {
    "version": 1,
    "setup_cmd": "./setup.sh",
    "hooks": {"guard": "verif",
              "enable": "go build -tags verif (the drivers under /verif/go/impl are built from /repo's working tree through a replace directive)",
              "baseline_off_cmd": "cd /repo && GOFLAGS=-mod=mod go test -json -vet=off -count=1 -timeout 25m ./...",
              "source_commits": commits, "add_only": True},
    "engines": [
        {"name": "coq", "path": "coq/", "serves_properties": sorted(frags),
         "kind_free_text": "Coq 8.16.1 development: Base (libraries), Gen (regenerated from /repo by go/gosync on every run), Model (executable models), Proofs, Props (statements only, each closed by `exact` + Print Assumptions)"},
        {"name": "corr", "path": "checks/", "serves_properties": sorted(frags),
         "kind_free_text": "correspondence check: extracted model (ocaml/modelrun.ml) vs implementation driver (go/impl/cmd/implrun, built from /repo with -tags verif) on enumerated + generated cases, plus direct property predicates on the implementation's outputs"}],
    "checks": [],
    "notes": "See DESIGN.md. KNOWN_FINDINGS.txt lists recorded and repaired defects (composed from findings/*.txt).",
    "not_applicable": [],
}
for p in props:
    pid = p["id"]
    if pid in frags:
        t = frags[pid]
        if t.get("not_applicable"):
            m["not_applicable"].append({"property_id": pid, "reason": t["not_applicable"]})
            continue
        m["checks"].append({
            "property_id": pid, "quick_cmd": "./check %s --tier quick" % pid, "thorough_cmd": "./check %s --tier thorough" % pid,
            "evidence_file": "evidence/%s.json" % pid, "replay_cmd_template": "./check %s --replay {path}" % pid, "engine": "coq",
            "level_claimed": {"category": t.get("category", "proof"), "text": t["level_text"], "design_ref": "DESIGN.md section 4, %s" % pid},
            "level_note": t["level_note"], "technique": t["technique"]})
    else:
        m["not_applicable"].append({"property_id": pid, "reason": "check not built yet (planned in DESIGN.md section 4; the technique applies)"})
json.dump(m, open(os.path.join(ROOT, "MANIFEST.json"), "w"), indent=1)
with open(os.path.join(ROOT, "MANIFEST.hooks"), "w") as f:
    f.write("# Hooks in /repo guarded by the build tag `verif` (add-only). <commit> <files> -- <purpose>\n")
    f.write("\n".join(hook_lines) + ("\n" if hook_lines else ""))
with open(os.path.join(ROOT, "KNOWN_FINDINGS.txt"), "w") as f:
    f.write("# Composed from findings/*.txt by lib/mkmanifest.py.\n# known: property=<id> key=<signature> <what fails>   (recorded, not repaired; the check prints KNOWN-FINDING and exits 0)\n# fixed: property=<id> <commit> <what failed>          (repaired by a fix: commit in /repo; suppresses nothing)\n")
    for fn in sorted(glob.glob(os.path.join(ROOT, "findings", "*.txt"))):
        for l in open(fn):
            if l.strip() and not l.startswith("#"):
                f.write(l if l.endswith("\n") else l + "\n")
print("MANIFEST.json: %d checks, %d not_applicable" % (len(m["checks"]), len(m["not_applicable"])))
