#!/bin/bash
# lib/seedretest_par.sh <shards> [ids...] — lib/seedretest.py on <shards> private copies of /verif and /repo (under /tmp/rt, removed
# afterwards), the property ids dealt round-robin; the "final" entries of the copies' seeded/*/*/meta.json are copied back.
set -u
N="$1"; shift
ids=("$@"); [ ${#ids[@]} -eq 0 ] && ids=($(ls /verif/seeded))
rm -rf /tmp/rt; mkdir -p /tmp/rt
for k in $(seq 0 $((N-1))); do
  mkdir -p /tmp/rt/$k; cp -a /verif /tmp/rt/$k/verif; cp -a /repo /tmp/rt/$k/repo
  mine=(); i=0; for id in "${ids[@]}"; do [ $((i % N)) -eq $k ] && mine+=($id); i=$((i+1)); done
  ( cd /tmp/rt/$k/verif && SEED_ROOT=/tmp/rt/$k/verif SEED_REPO=/tmp/rt/$k/repo VERIF_REPO=/tmp/rt/$k/repo python3 lib/seedretest.py "${mine[@]}" > /tmp/rt/$k.log 2>&1 ) &
done
wait
for k in $(seq 0 $((N-1))); do
  mine=(); i=0; for id in "${ids[@]}"; do [ $((i % N)) -eq $k ] && mine+=($id); i=$((i+1)); done
  for id in "${mine[@]}"; do for d in /tmp/rt/$k/verif/seeded/$id/*; do cp $d/meta.json /verif/seeded/$id/$(basename $d)/meta.json; done; done
  cat /tmp/rt/$k.log
  rm -rf /tmp/rt/$k
done
