#!/usr/bin/env python3
"""Runs the repository's own test suite with the verif guard OFF and compares with /root/.vp/BASELINE.json:
every test listed under stable_pass must pass. Usage: lib/baseline.py [repo]   (takes ~1 min)"""
import json, os, subprocess, sys, fcntl
repo = sys.argv[1] if len(sys.argv) > 1 else "/repo"
base = json.load(open("/root/.vp/BASELINE.json"))
want = set(base["stable_pass"])
env = dict(os.environ, GOFLAGS="-mod=mod", GOPROXY="off", GOSUMDB="off", GOTOOLCHAIN="local")
lock = open("/tmp/repo-tests.lock", "w")
fcntl.flock(lock, fcntl.LOCK_EX)
def untracked():
    return set(subprocess.run(["git", "-C", repo, "ls-files", "--others", "--exclude-standard", "--directory"], stdout=subprocess.PIPE, text=True).stdout.split("\n")) - {""}
before = untracked()
p = subprocess.run(["go", "test", "-json", "-vet=off", "-count=1", "-timeout", "25m", "./..."], cwd=repo, env=env, stdout=subprocess.PIPE, stderr=subprocess.STDOUT, text=True)
# the suite's set-up copies fixtures into <pkg>/testcase and some packages do not remove them: take away what this run left
for f in sorted(untracked() - before):
    subprocess.run(["rm", "-rf", os.path.join(repo, f)])
res = {}
for l in p.stdout.split("\n"):
    try:
        j = json.loads(l)
    except ValueError:
        continue
    if j.get("Test") and j.get("Action") in ("pass", "fail", "skip"):
        res[j["Package"] + "::" + j["Test"]] = j["Action"]
missing = sorted(t for t in want if res.get(t) != "pass")
print("stable_pass %d, passed %d, not passed %d" % (len(want), len(want) - len(missing), len(missing)))
for t in missing[:40]:
    print("  NOT PASSED:", t, res.get(t))
sys.exit(1 if missing else 0)
