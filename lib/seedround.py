#!/usr/bin/env python3
"""lib/seedround.py <pid> [check ids...] — import the seeded changes of /tmp/s/<pid>a/out/k into seeded/<pid>/<pid>-k,
run the quick check(s) with each applied to /repo (restoring /repo afterwards) and record what was reported."""
import json, os, shutil, subprocess, sys, re
pid = sys.argv[1]
rnd = "a"
args = sys.argv[2:]
if args and args[0].startswith("--round="):
    rnd = args[0].split("=")[1]; args = args[1:]
checks = args or [pid]
ROOT = os.environ.get("SEED_ROOT", "/verif")
REPO = os.environ.get("SEED_REPO", "/repo")
os.environ["VERIF_REPO"] = REPO
for k in (1, 2, 3):
    src = "/tmp/s/%s%s/out/%d" % (pid, rnd, k)
    if not os.path.exists(os.path.join(src, "meta.json")):
        print(pid, k, "missing"); continue
    tag = "%d" % k if rnd == "a" else "%s%d" % (rnd, k)
    dst = os.path.join(ROOT, "seeded", pid, "%s-%s" % (pid, tag))
    os.makedirs(dst, exist_ok=True)
    prev = {}
    if os.path.exists(os.path.join(dst, "meta.json")):
        prev = json.load(open(os.path.join(dst, "meta.json"))).get("checks_run", {})
    for f in ("patch.diff", "demo_test.go.txt", "meta.json"):
        shutil.copy(os.path.join(src, f), os.path.join(dst, f))
    if subprocess.run("git -C %s diff --quiet" % REPO, shell=True).returncode:
        print("repo dirty"); sys.exit(2)
    r = subprocess.run(["git", "-C", REPO, "apply", "--3way", os.path.join(dst, "patch.diff")], stdout=subprocess.PIPE, stderr=subprocess.STDOUT, text=True)
    if r.returncode:
        print(pid, k, "patch does not apply:", r.stdout[-300:]); subprocess.run("git -C %s checkout -- . ; git -C %s reset -q" % (REPO, REPO), shell=True); continue
    subprocess.run("git -C %s reset -q" % REPO, shell=True)
    files = subprocess.run("git -C %s diff --stat | head -8" % REPO, shell=True, stdout=subprocess.PIPE, text=True).stdout
    results = {}
    for cid in checks:
        try:
            p = subprocess.run(["timeout", "-k", "5", "1500", "./check", cid, "--tier", "quick"], cwd=ROOT, stdout=subprocess.PIPE, stderr=subprocess.STDOUT, text=True)
        except Exception as ex:
            print("check failed to run:", ex); p = subprocess.CompletedProcess([], 124, stdout="")
        if ROOT == "/verif": subprocess.run("pkill -f '^/verif/build/[i]mplrun'; sleep 0.3", shell=True)
        viol = [l for l in p.stdout.split("\n") if l.startswith("VIOLATION")]
        descr = [l[2:200] for l in p.stdout.split("\n") if l.startswith("# ")]
        results[cid] = {"exit": p.returncode, "violations": [re.sub(r"replay=\S*/", "replay=", v) for v in viol], "what": descr[:4]}
    subprocess.run("git -C %s checkout -- ." % REPO, shell=True)
    subprocess.run("git checkout -- evidence", shell=True, cwd=ROOT)
    meta = json.load(open(os.path.join(dst, "meta.json")))
    results = dict(prev, **results)
    caught = [c for c, r in results.items() if r["exit"] == 1 and r["violations"]]
    meta["checks_run"] = results
    meta["result"] = ("caught by " + ", ".join(caught)) if caught else "MISSED by " + ", ".join(sorted(results))
    meta["ran"] = "git -C /repo apply seeded/%s/%s-%s/patch.diff; ./check <id> --tier quick; git -C /repo checkout -- ." % (pid, pid, tag)
    json.dump(meta, open(os.path.join(dst, "meta.json"), "w"), indent=1)
    print("%s-%s: %s | files: %s | %s" % (pid, tag, meta["result"], " ".join(files.split()[:1]), "; ".join(d[:110] for r in results.values() for d in r["what"][:1])))
