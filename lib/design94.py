#!/usr/bin/env python3
"""lib/design94.py — regenerate the generated parts of DESIGN.md: the table of seeded changes at the end of section 9.4
(between the markers) from seeded/*/*/meta.json and the table of harmless changes in 9.5 from harmless/*/*/meta.json."""
import json, glob, os, re, subprocess
ROOT = os.path.dirname(os.path.dirname(os.path.abspath(__file__)))
p = os.path.join(ROOT, "DESIGN.md"); s = open(p).read()
def between(s, a, b, new):
    i = s.index(a) + len(a); j = s.index(b, i)
    return s[:i] + "\n" + new.strip("\n") + "\n" + s[j:]
tab = subprocess.run(["python3", os.path.join(ROOT, "lib", "seedtable.py")], stdout=subprocess.PIPE, text=True).stdout
s = between(s, "<!-- seedtable:begin -->", "<!-- seedtable:end -->", tab)
rows = []; quiet = 0; runs = 0; alarms = []
for f in sorted(glob.glob(os.path.join(ROOT, "harmless", "*", "*", "meta.json"))):
    m = json.load(open(f)); name = os.path.basename(os.path.dirname(f))
    ch = m.get("checks", {})
    bad = [c for c, v in ch.items() if c == "apply" or v.get("exit") != 0]
    runs += len(ch)
    if ch and not bad: quiet += 1
    res = ("quiet: " + ", ".join(ch)) if ch and not bad else ("not run" if not ch else "ALARM by " + ", ".join(bad))
    if m.get("resolution"): res += " — " + m["resolution"]
    rows.append("| %s | %s | %s |" % (name, re.sub(r"\s+", " ", str(m.get("summary", "")))[:260].replace("|", "\\|"), res.replace("|", "\\|")))
    if bad: alarms.append(name)
ht = "%d behaviour-preserving changes, %d check runs; %d left every check it was run against at exit 0%s.\n\n| change | what it rewrites | checks run and outcome |\n|---|---|---|\n%s" % (
    len(rows), runs, quiet, ("; first-run alarms: " + ", ".join(alarms)) if alarms else "", "\n".join(rows))
if "<!-- harmtable:begin -->" in s:
    s = between(s, "<!-- harmtable:begin -->", "<!-- harmtable:end -->", ht)
open(p, "w").write(s)
print("DESIGN.md regenerated:", tab.split("\n")[0], "|", ht.split("\n")[0])
