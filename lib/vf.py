"""Shared machinery of the checks: regenerate Gen/*.v from /repo (gosync), build the Coq
development (full .vo builds under a lock and a timeout), audit Props/<id>.v, build the
implementation driver from /repo's working tree (-tags verif), extract and build the model
driver, run case files through both, and write evidence / replays / verdict lines."""
import fcntl, hashlib, json, os, random, re, subprocess, sys, time

ROOT = os.path.dirname(os.path.dirname(os.path.abspath(__file__)))
REPO = os.environ.get("VERIF_REPO", "/repo")
COQ = os.path.join(ROOT, "coq")
BUILD = os.path.join(ROOT, "build")
GOENV = dict(os.environ, GOFLAGS="-mod=mod", GOPROXY="off", GOSUMDB="off", GOTOOLCHAIN="local",
             VERIF_REPO=REPO)
COQC_TIMEOUT = int(os.environ.get("VERIF_COQ_TIMEOUT", "1500"))

STANDING_TRUSTED_BASE = [
    "Coq 8.16.1 kernel incl. vm_compute (native_compute not used)",
    "gosync translator (go/packages, type-checked syntax -> coq/Gen/*.v)",
    "Extraction with ExtrOcamlBasic only (no Extract Constant / Extract Inductive of our own); ocaml/modelrun.ml glue",
    "correspondence harness: go/impl/cmd/implrun, lib/vf.py, checks/*.py (generators, canonicaliser, differ)",
]


def sh(cmd, cwd=None, env=None, timeout=None, inp=None):
    p = subprocess.run(cmd, cwd=cwd, env=env, timeout=timeout, input=inp, stdout=subprocess.PIPE,
                       stderr=subprocess.STDOUT, shell=isinstance(cmd, str), text=True)
    return p.returncode, p.stdout


class Lock:
    def __init__(self, name="build"):
        os.makedirs(BUILD, exist_ok=True)
        self.path = os.path.join(BUILD, "." + name + ".lock")

    def __enter__(self):
        self.f = open(self.path, "w")
        fcntl.flock(self.f, fcntl.LOCK_EX)
        return self

    def __exit__(self, *a):
        fcntl.flock(self.f, fcntl.LOCK_UN)
        self.f.close()


def repo_hash(exts=(".go", ".txt", ".mod", ".sum", ".c", ".h")):
    """Hash of every source file of the working tree that a build could read."""
    h = hashlib.sha256()
    for d, dirs, files in os.walk(REPO):
        dirs[:] = sorted(x for x in dirs if x not in (".git", "testcase", "docs", "apidoc", "node_modules"))
        for f in sorted(files):
            if f.endswith(exts):
                p = os.path.join(d, f)
                try:
                    st = os.stat(p)
                except OSError:
                    continue
                h.update(p.encode())
                h.update(str((st.st_size, st.st_mtime_ns)).encode())
    return h.hexdigest()


def ensure_gosync():
    """Build the translator if needed and regenerate coq/Gen from the working tree when it changed."""
    with Lock():
        exe = os.path.join(BUILD, "gosync")
        gd = os.path.join(ROOT, "go", "gosync")
        newest = max(os.path.getmtime(os.path.join(gd, f)) for f in os.listdir(gd) if f.endswith(".go"))
        if not os.path.exists(exe) or os.path.getmtime(exe) < newest:
            rc, out = sh(["go", "build", "-o", exe, "."], cwd=os.path.join(ROOT, "go", "gosync"), env=GOENV)
            if rc != 0:
                raise SystemExit("gosync build failed:\n" + out)
        stamp = os.path.join(BUILD, "gosync.stamp")
        hv = repo_hash() + str(os.path.getmtime(exe))
        old = open(stamp).read() if os.path.exists(stamp) else ""
        gen_ok = os.path.exists(os.path.join(COQ, "Gen", "Consts_default.v"))
        if old != hv or not gen_ok:
            rc, out = sh([exe, "-repo", REPO, "-out", os.path.join(COQ, "Gen")], env=GOENV, timeout=600)
            if rc != 0:
                raise SystemExit("gosync failed (does /repo compile?):\n" + out)
            open(stamp, "w").write(hv)
            return out
    return ""


def coq_project():
    files = []
    for sub in ("Base", "Gen", "Model", "Proofs", "Props"):
        d = os.path.join(COQ, sub)
        if os.path.isdir(d):
            for f in sorted(os.listdir(d)):
                if f.endswith(".v"):
                    files.append(sub + "/" + f)
    content = "-Q . Verif\n-arg -w -arg -notation-overridden,-deprecated-hint-without-locality,-deprecated-instance-without-locality\n" + "\n".join(files) + "\n"
    p = os.path.join(COQ, "_CoqProject")
    old = open(p).read() if os.path.exists(p) else ""
    if old != content or not os.path.exists(os.path.join(COQ, "Makefile")):
        open(p, "w").write(content)
        rc, out = sh(["coq_makefile", "-f", "_CoqProject", "-o", "Makefile"], cwd=COQ)
        if rc != 0:
            raise SystemExit("coq_makefile failed:\n" + out)


def coq_make(targets, jobs=16):
    """Full .vo build of the given targets (and their dependencies). Returns (ok, log)."""
    with Lock():
        coq_project()
        cmd = "ulimit -s unlimited 2>/dev/null; timeout %d make -j%d %s" % (COQC_TIMEOUT, jobs, " ".join(targets))
        rc, out = sh(["bash", "-c", cmd], cwd=COQ)
        return rc == 0, out


def find_failed(log):
    """(file, line, enclosing lemma name) of the first error in a make log."""
    m = re.search(r'File "\./([^"]+)", line (\d+)', log)
    if not m:
        return None
    f, line = m.group(1), int(m.group(2))
    name = "?"
    try:
        src = open(os.path.join(COQ, f)).read().split("\n")
        for i in range(min(line, len(src)) - 1, -1, -1):
            mm = re.match(r"\s*(Theorem|Lemma|Corollary|Example|Definition|Fact|Remark|Proposition)\s+([A-Za-z0-9_']+)", src[i])
            if mm:
                name = mm.group(2)
                break
    except OSError:
        pass
    return f, line, name


def props_audit(pid):
    """Compile Props/<pid>.v on its own and return (ok, theorem names, {name: assumptions}, log)."""
    path = os.path.join(COQ, "Props", pid + ".v")
    src = open(path).read()
    names = re.findall(r"^\s*Theorem\s+([A-Za-z0-9_']+)", src, re.M)
    with Lock():
        rc, out = sh(["bash", "-c", "ulimit -s unlimited 2>/dev/null; timeout %d coqc -Q . Verif Props/%s.v" % (COQC_TIMEOUT, pid)], cwd=COQ)
    assum = {}
    printed = re.findall(r"^\s*Print Assumptions\s+([A-Za-z0-9_'.]+)\s*\.", src, re.M)
    # output blocks come in the order of the Print Assumptions commands
    blocks = re.split(r"(?m)^(?=Closed under the global context|Axioms:)", out)
    blocks = [b.strip() for b in blocks if b.strip().startswith(("Closed under", "Axioms:"))]
    for n, b in zip(printed, blocks):
        assum[n] = b
    return rc == 0, names, assum, out


def audit_sources():
    """Forbidden constructs anywhere in the development."""
    bad = []
    pat = re.compile(r"\b(Admitted|admit|Axiom|Axioms|Parameter|Parameters|Conjecture|Admit Obligations|bypass_check|Unset Guard Checking|Unset Positivity Checking|Unset Universe Checking|type-in-type|impredicative-set)\b")
    for sub in ("Base", "Model", "Proofs", "Props", "Extract"):
        d = os.path.join(COQ, sub)
        for f in sorted(os.listdir(d)) if os.path.isdir(d) else []:
            if f.endswith(".v"):
                txt = open(os.path.join(d, f)).read()
                txt = re.sub(r"\(\*.*?\*\)", "", txt, flags=re.S)
                for m in pat.finditer(txt):
                    bad.append("%s/%s: %s" % (sub, f, m.group(1)))
    return bad


def build_impl(tags="verif", name="implrun"):
    with Lock():
        rc, out = sh([os.path.join(ROOT, "lib", "gomod.sh")], env=GOENV)
        if rc != 0:
            raise SystemExit("gomod failed:\n" + out)
        exe = os.path.join(BUILD, name)
        rc, out = sh(["go", "build", "-tags", tags, "-o", exe, "./cmd/implrun"],
                     cwd=os.path.join(ROOT, "go", "impl"), env=GOENV, timeout=900)
        if rc != 0:
            raise SystemExit("building the implementation driver from %s failed:\n%s" % (REPO, out))
        return exe


def build_model(pid):
    """Extract Model.<pid>.run_case to OCaml and compile the generic driver against it."""
    with Lock():
        d = os.path.join(BUILD, pid)
        os.makedirs(d, exist_ok=True)
        exe = os.path.join(d, "modelrun")
        vo = os.path.join(COQ, "Model", pid + ".vo")
        drv = os.path.join(ROOT, "ocaml", "modelrun.ml")
        ext = os.path.join(COQ, "Extract", pid + ".v")
        if os.path.exists(exe) and all(os.path.getmtime(exe) > os.path.getmtime(p) for p in (vo, drv, ext)):
            return exe
        rc, out = sh(["bash", "-c", "ulimit -s unlimited 2>/dev/null; timeout 900 coqc -Q %s Verif %s" % (COQ, ext)], cwd=d)
        if rc != 0:
            raise SystemExit("extraction failed:\n" + out)
        for f in os.listdir(d):
            if f.endswith((".vo", ".glob", ".vok", ".vos")):
                os.remove(os.path.join(d, f))
        sh(["cp", drv, d])
        rc, out = sh(["bash", "-c", "ulimit -s unlimited 2>/dev/null; ocamlfind ocamlopt -O3 -w -a model.mli model.ml modelrun.ml -o modelrun"], cwd=d, timeout=1800)
        if rc != 0:
            raise SystemExit("ocaml build failed:\n" + out)
        return exe


_XCHECK = {}


def run_model(exe, lines):
    p = subprocess.run(["bash", "-c", "ulimit -s unlimited 2>/dev/null; exec " + exe], input="\n".join(lines) + "\n",
                       stdout=subprocess.PIPE, stderr=subprocess.PIPE, text=True)
    out = p.stdout.split("\n")
    if out and out[-1] == "":
        out.pop()
    if len(out) != len(lines):
        raise SystemExit("model driver returned %d lines for %d cases (rc=%s): %s" % (len(out), len(lines), p.returncode, p.stderr[-500:]))
    # remember a few (model input, model answer) pairs: Check.finish() re-evaluates them inside Coq with vm_compute,
    # which cross-checks extraction + the OCaml driver against the kernel's own evaluation of the same run_case
    pid = os.path.basename(os.path.dirname(exe))
    mem = _XCHECK.setdefault(pid, [])
    n = len(lines)
    for i in sorted(set([0, n // 2, n - 1])) if n and len(mem) < 36 else []:
        if len(lines[i]) < 1500 and len(out[i]) < 4000:
            mem.append((lines[i], out[i]))
    return out


def run_impl(exe, pid, lines, deadline_ms=10000, env=None, cwd=None, max_hangs=40):
    """Runs the implementation driver; restarts it after a hang (reported as status 2). After max_hangs
    hangs in one call the remaining cases are not run and are reported with status 7 (skipped), so that a
    tree that stalls on a whole class of inputs costs minutes, not hours."""
    res = []
    i = 0
    hangs = 0
    e = dict(GOENV)
    if env:
        e.update(env)
    while i < len(lines):
        if hangs >= max_hangs:
            res.extend(["7"] * (len(lines) - i))
            break
        p = subprocess.run([exe, pid, "-deadline", str(deadline_ms)], input="\n".join(lines[i:]) + "\n",
                           stdout=subprocess.PIPE, stderr=subprocess.PIPE, text=True, env=e, cwd=cwd)
        out = p.stdout.split("\n")
        if out and out[-1] == "":
            out.pop()
        res.extend(out)
        i += len(out)
        if p.returncode == 3:
            hangs += 1
            continue  # hang reported for the last case printed; carry on with the rest
        if p.returncode != 0 or not out:
            raise SystemExit("implementation driver failed (rc=%s) after %d cases: %s" % (p.returncode, i, p.stderr[-2000:]))
    return res[:len(lines)]


def load_known():
    known, fixed = [], []
    d = os.path.join(ROOT, "findings")
    for fn in sorted(os.listdir(d)) if os.path.isdir(d) else []:
        for l in open(os.path.join(d, fn)):
            l = l.strip()
            m = re.match(r"known:\s+property=(\S+)\s+key=(\S+)\s+(.*)", l)
            if m:
                known.append((m.group(1), m.group(2), m.group(3)))
            m = re.match(r"fixed:\s+property=(\S+)\s+(\S+)\s+(.*)", l)
            if m:
                fixed.append((m.group(1), m.group(2), m.group(3)))
    return known, fixed


class Check:
    def __init__(self, pid, argv=None):
        argv = sys.argv[1:] if argv is None else argv
        self.pid = pid
        self.t0 = time.time()
        self.tier = os.environ.get("VERIF_TIER", "quick")
        self.replay = None
        i = 0
        while i < len(argv):
            if argv[i] == "--tier":
                self.tier = argv[i + 1]; i += 1
            elif argv[i] == "--replay":
                self.replay = argv[i + 1]; i += 1
            i += 1
        if self.tier not in ("quick", "thorough"):
            self.tier = "quick"
        try:
            self.seed = int(os.environ.get("VERIF_SEED", "1"))
        except ValueError:
            self.seed = 1
        self.rng = random.Random(self.seed)
        self.violations = []      # (key, description, replay path, tail)
        self.known_hits = []
        self.broken = []          # proof obligations / correspondences that no longer check
        self.obligations = 0
        self.discharged = 0
        self.assumptions = {}
        self.checker_cmd = ""
        self.cov = {"evaluations": 0, "samples": [], "distribution": {}, "exhaustive_parts": []}
        self.distinct = set()
        self.known, self.fixed = load_known()
        os.makedirs(os.path.join(ROOT, "replays", pid), exist_ok=True)
        os.makedirs(os.path.join(ROOT, "evidence"), exist_ok=True)
        if self.replay:
            self.do_replay()
        for f in os.listdir(os.path.join(ROOT, "replays", pid)):   # replays of earlier runs are stale
            os.remove(os.path.join(ROOT, "replays", pid, f))

    def do_replay(self):
        """Re-run the cases of a replay file on the implementation built from the current tree."""
        obj = json.load(open(self.replay))
        print("replay of %s: %s" % (self.replay, obj.get("what", "")))
        cases = obj.get("cases")
        if not cases:
            print(json.dumps(obj, indent=1)[:4000])
            print("(no directly replayable case list: this replay names the obligation/correspondence that no longer checks)")
            sys.exit(1)
        exe = build_impl()
        out = run_impl(exe, self.pid, cases, env=obj.get("env"))
        bad = False
        for cs, o in zip(cases, out):
            print("case   %s\nresult %s" % (cs, o))
            if o.split()[:1] in (["1"], ["2"]):
                bad = True
        if "expected" in obj and isinstance(obj["expected"], str):
            print("expected %s" % obj["expected"])
            bad = bad or out[-1].strip() != obj["expected"].strip()
        print("replay: %s" % ("property still violated on this input" if bad else "input now behaves"))
        sys.exit(1 if bad else 0)

    # ------------------------------------------------------------ proof side
    def prove(self, extra_targets=()):
        """gosync, full build of the property's theorems, audit. Broken obligations are recorded, not fatal."""
        ensure_gosync()
        targets = ["Proofs/%s.vo" % self.pid] + list(extra_targets)
        self.checker_cmd = "make -j16 " + " ".join(targets) + " && coqc -Q . Verif Props/%s.v   (in %s; full .vo builds)" % (self.pid, COQ)
        ok, log = coq_make(targets)
        src = open(os.path.join(COQ, "Props", self.pid + ".v")).read()
        names = re.findall(r"^\s*Theorem\s+([A-Za-z0-9_']+)", src, re.M)
        self.obligations = len(names)
        if not ok:
            ff = find_failed(log)
            self.broken.append({"kind": "proof", "where": "%s line %s" % (ff[0], ff[1]) if ff else "?",
                                "theorem": ff[2] if ff else "?", "log": log[-1500:]})
            return False
        ok, names, assum, out = props_audit(self.pid)
        self.assumptions = assum
        if not ok:
            ff = find_failed(out.replace('File "Props/', 'File "./Props/'))
            self.broken.append({"kind": "proof", "where": "Props/%s.v" % self.pid, "theorem": ff[2] if ff else "?", "log": out[-1500:]})
            return False
        bad = audit_sources()
        if bad:
            self.broken.append({"kind": "audit", "where": "; ".join(bad), "theorem": "no Admitted/Axiom discipline", "log": ""})
            return False
        for n, a in assum.items():
            if not a.startswith("Closed under"):
                # only standard-library axioms are tolerated; they are reported in trusted_base
                pass
        self.discharged = len(names)
        if self.tier == "thorough":
            # independent re-check of the compiled closure of Props/<id>.vo, with its axiom summary
            with Lock():
                rc, out = sh(["bash", "-c", "ulimit -s unlimited 2>/dev/null; timeout 3000 coqchk -silent -o -Q . Verif Verif.Props.%s" % self.pid], cwd=COQ)
            summ = out[out.find("CONTEXT SUMMARY"):] if "CONTEXT SUMMARY" in out else out[-800:]
            self.assumptions["coqchk"] = " ".join(summ.split())
            self.checker_cmd += " && coqchk -silent -o -Q . Verif Verif.Props.%s" % self.pid
            if rc != 0:
                self.broken.append({"kind": "proof", "where": "coqchk Props/%s" % self.pid, "theorem": "coqchk re-check", "log": out[-1500:]})
                return False
        return True

    def model_ok(self):
        ok, log = coq_make(["Model/%s.vo" % self.pid])
        if not ok:
            self.broken.append({"kind": "model", "where": "Model/%s.v" % self.pid, "theorem": "model does not build against regenerated Gen/", "log": log[-1500:]})
        return ok

    # ------------------------------------------------------------ bookkeeping
    def count(self, n=1, kind=None):
        self.cov["evaluations"] += n
        if kind:
            self.cov["distribution"][kind] = self.cov["distribution"].get(kind, 0) + n

    def nontrivial(self, key):
        self.distinct.add(hashlib.md5(repr(key).encode()).hexdigest()[:16])

    def sample(self, s, limit=8):
        if len(self.cov["samples"]) < limit:
            self.cov["samples"].append(s)

    def write_replay(self, name, obj):
        p = os.path.join(ROOT, "replays", self.pid, name + ".json")
        obj = dict(obj, property=self.pid, seed=self.seed, tier=self.tier)
        json.dump(obj, open(p, "w"), indent=1)
        return p

    def violation(self, key, desc, replay_obj, no_input=False):
        """Record a violation; a listed known finding (same property and key) is only labelled."""
        for (p, k, d) in self.known:
            if p == self.pid and k == key:
                if key not in [x[0] for x in self.known_hits]:
                    self.known_hits.append((key, d))
                return
        if key in [v[0] for v in self.violations]:
            return
        path = self.write_replay(re.sub(r"[^A-Za-z0-9_.-]", "_", key)[:80], dict(replay_obj, what=desc))
        self.violations.append((key, desc, path, " no-failing-input-found" if no_input else ""))

    def extraction_crosscheck(self):
        """Evaluate the remembered cases with vm_compute inside Coq and compare with what the extracted model printed."""
        pairs = _XCHECK.get(self.pid, [])
        if not pairs or not os.path.exists(os.path.join(COQ, "Model", self.pid + ".vo")):
            return
        def zlit(t):
            return "(%s)" % t if t.startswith("-") else t
        def case_term(line):
            return "[" + "; ".join("[" + "; ".join(zlit(t) for t in g.split()) + "]" for g in line.split("|")) + "]"
        d = os.path.join(BUILD, self.pid)
        os.makedirs(d, exist_ok=True)
        src = os.path.join(d, "xcheck.v")
        with open(src, "w") as f:
            f.write("From Coq Require Import ZArith List String. Import ListNotations. Open Scope Z_scope.\nFrom Verif Require Import Model.%s.\n" % self.pid)
            for k, (cs, _) in enumerate(pairs):
                f.write("Definition r%d := Eval vm_compute in %s.run_case %s.\n" % (k, self.pid, case_term(cs)))
                f.write("Print r%d.\n" % k)
        rc, out = sh(["bash", "-c", "ulimit -s unlimited 2>/dev/null; timeout 600 coqc -Q %s Verif %s" % (COQ, src)], cwd=d)
        for f_ in os.listdir(d):
            if f_.startswith("xcheck.") and f_ != "xcheck.v" or f_ == ".xcheck.aux":
                os.remove(os.path.join(d, f_))
        if rc != 0:
            self.cov["extraction_crosscheck"] = "coqc failed: " + out[-300:]
            return
        got = {}
        for m in re.finditer(r"r(\d+) =\s*(\[.*?\])\s*:\s*list Z", out, re.S):
            nums = re.findall(r"-?\d+", m.group(2))
            got[int(m.group(1))] = " ".join(nums)
        bad = []
        for k, (cs, mo) in enumerate(pairs):
            if k in got and got[k].split() != mo.split():
                bad.append({"case": cs, "ocaml": mo, "vm_compute": got[k]})
        self.cov["extraction_crosscheck"] = {"cases": len(got), "disagreements": len(bad)}
        if bad:
            self.broken.append({"kind": "extraction", "where": "ocaml/modelrun.ml + extraction vs vm_compute", "theorem": "extraction cross-check",
                                "mismatches": len(bad), "examples": bad[:3], "log": ""})

    def finish(self, rule, level="proof", extra=None, assumptions=None):
        try:
            self.extraction_crosscheck()
        except Exception as ex:   # never let the cross-check itself decide a verdict
            self.cov["extraction_crosscheck"] = "skipped: %s" % ex
        # a broken obligation/correspondence with no failing input found is still a violation
        if self.broken and not self.violations:
            for b in self.broken:
                self.violation("broken:" + b["theorem"], "no longer checks: %s (%s)" % (b["theorem"], b["where"]), b, no_input=True)
        tb = list(STANDING_TRUSTED_BASE)
        for n, a in sorted(self.assumptions.items()):
            tb.append("Print Assumptions %s: %s" % (n, " ".join(a.split())))
        cov = dict(self.cov)
        cov.update({
            "obligations": self.obligations, "discharged": self.discharged if not self.broken else min(self.discharged, max(0, self.obligations - 1)),
            "checker_cmd": self.checker_cmd or "none", "trusted_base": tb,
            "distinct_nontrivial": len(self.distinct), "rule": rule,
            "broken_obligations": [dict(b, log=b.get("log", "")[-400:]) for b in self.broken],
            "known_findings_reproduced": [k for k, _ in self.known_hits],
        })
        if extra:
            cov.update(extra)
        if not cov["samples"]:
            cov["samples"] = ["(no cases run)"]
        ev = {"property_id": self.pid, "tier": self.tier, "seed": self.seed, "level": level, "coverage": cov,
              "assumptions": assumptions or [], "wall_s": round(time.time() - self.t0, 2),
              "violations": len(self.violations)}
        json.dump(ev, open(os.path.join(ROOT, "evidence", self.pid + ".json"), "w"), indent=1)
        for k, d in self.known_hits:
            print("KNOWN-FINDING: property=%s %s [%s]" % (self.pid, d, k))
        for (k, d, path, tail) in self.violations:
            print("# %s" % d)
            print("VIOLATION property=%s replay=%s%s" % (self.pid, path, tail))
        print("%s: %s  obligations %d/%d, cases %d, distinct non-trivial %d, %.1fs" % (
            self.pid, "VIOLATED" if self.violations else "ok", cov["discharged"], self.obligations,
            cov["evaluations"], len(self.distinct), time.time() - self.t0))
        sys.stdout.flush()
        sys.exit(1 if self.violations else 0)


def diff_lines(cases, impl, model):
    """indices where implementation and model disagree"""
    return [i for i in range(len(cases)) if impl[i].strip() != model[i].strip()]


def fmt_bytes(toks):
    try:
        return bytes(int(t) for t in toks).decode("latin-1")
    except ValueError:
        return " ".join(toks)


def correspond(c, label, cases, impl, model, describe=None, limit=5):
    """Record implementation/model disagreements as a broken correspondence (not yet a violation)."""
    bad = diff_lines(cases, impl, model)
    if bad:
        ex = [{"case": cases[i], "impl": impl[i], "model": model[i], "note": describe(cases[i]) if describe else ""} for i in bad[:limit]]
        c.broken.append({"kind": "correspondence", "where": label, "theorem": "correspondence " + label,
                         "mismatches": len(bad), "examples": ex, "log": ""})
    return bad


def ipc_cleanup():
    """Remove SysV segments / semaphores left behind by killed drivers (keys 0x56xxxxxx / 0x57xxxxxx, no attachments)."""
    rc, out = sh("ipcs -m")
    for l in out.split("\n"):
        f = l.split()
        if len(f) >= 6 and f[0].startswith("0x56") and f[5] == "0":
            sh(["ipcrm", "-m", f[1]])
    rc, out = sh("ipcs -s")
    for l in out.split("\n"):
        f = l.split()
        if len(f) >= 2 and f[0].startswith("0x57"):
            # only remove when no driver is running
            rc2, ps = sh("pgrep -f build/implrun")
            if not ps.strip():
                sh(["ipcrm", "-s", f[1]])
