#!/bin/bash
# lib/run_thorough_some.sh Cxx... — thorough tier of the named checks, two at a time (used with `vp run --with-repo`)
cd "$(dirname "$0")/.."
[ -n "${VP_RUN_REPO:-}" ] && export VERIF_REPO=$VP_RUN_REPO
./setup.sh > setup.log 2>&1
printf "%s\n" "$@" | xargs -P 2 -I{} sh -c '/usr/bin/time -f "{} wall %es" ./check {} --tier thorough 2>&1 | grep -E "^(VIOLATION|C[0-9]+:|C[0-9]+ wall)" | cut -c1-300'
