#!/usr/bin/env python3
"""lib/confirmseed.py seeded/<id>/<name>  — confirm a seeded change in a scratch worktree of /repo:
(1) with the patch: builds, the touched packages' existing tests pass; (2) with patch + demo: the demo fails;
(3) without the patch: the demo passes. Writes the outcome into meta.json ("confirmed")."""
import json, os, re, subprocess, sys, tempfile, shutil
seed = os.path.abspath(sys.argv[1])
env = dict(os.environ, GOFLAGS="-mod=mod", GOPROXY="off", GOSUMDB="off", GOTOOLCHAIN="local")
demo = open(os.path.join(seed, "demo_test.go.txt")).read()
m = re.search(r"([a-z/0-9_]+/[A-Za-z0-9_]+_test\.go)", demo.split("\n", 3)[0] + "\n" + "\n".join(demo.split("\n")[:6]))
if not m:
    print("cannot find the demo's target path in its leading comment"); sys.exit(2)
target = m.group(1)
pkg = "./" + os.path.dirname(target) + "/..."
wt = tempfile.mkdtemp(prefix="seedconfirm")
os.rmdir(wt)
def sh(cmd, **kw):
    p = subprocess.run(cmd, shell=True, cwd=kw.get("cwd", wt), env=env, stdout=subprocess.PIPE, stderr=subprocess.STDOUT, text=True, errors="replace")
    return p.returncode, p.stdout
rc, out = sh("git -C /repo worktree add -q --detach %s HEAD" % wt, cwd="/")
res = {}
try:
    rc, out = sh("git apply %s" % os.path.join(seed, "patch.diff"))
    if rc: raise SystemExit("patch does not apply: " + out)
    touched = sorted({"./" + os.path.dirname(l[6:]) + "/..." for l in open(os.path.join(seed, "patch.diff")) if l.startswith("+++ b/")})
    rc, out = sh("go build ./... && go build -tags docker ./... && flock /tmp/repo-tests.lock go test -vet=off -count=1 -p 1 %s" % " ".join(sorted(set(touched + [pkg]))))
    res["with_change_existing_tests_pass"] = rc == 0
    if rc: res["existing_tests_output"] = out[-1500:]
    open(os.path.join(wt, target), "w").write(demo)
    mt = re.search(r"-tags[ =]\"?([a-z,]+( [a-z]+)?)\"?", demo.split("\n", 1)[0])   # demonstrations under other build tags (docker = production constants, verif = schedule points) say so in their first line
    tags = ("-tags \"%s\" " % mt.group(1).strip()) if mt and re.match(r"^(docker|verif)([ ,](docker|verif))?$", mt.group(1).strip()) else ""
    res["demo_tags"] = tags.strip()
    run = "flock /tmp/repo-tests.lock go test %s-vet=off -count=1 -run 'Seed' ./%s/" % (tags, os.path.dirname(target))
    rc, out = sh(run)
    res["with_change_demo_fails"] = rc != 0
    res["demo_output_with_change"] = out[-600:]
    sh("git apply -R %s" % os.path.join(seed, "patch.diff"))
    rc, out = sh(run)
    res["without_change_demo_passes"] = rc == 0
    if rc: res["demo_output_without_change"] = out[-1000:]
finally:
    sh("git -C /repo worktree remove --force %s" % wt, cwd="/")
    shutil.rmtree(wt, ignore_errors=True)
ok = res.get("with_change_existing_tests_pass") and res.get("with_change_demo_fails") and res.get("without_change_demo_passes")
mp = os.path.join(seed, "meta.json")
meta = json.load(open(mp))
meta["confirmed"] = dict(res, all_confirmed=bool(ok), how="lib/confirmseed.py in a scratch worktree of /repo HEAD (removed afterwards)")
json.dump(meta, open(mp, "w"), indent=1)
print(os.path.basename(seed), "CONFIRMED" if ok else "NOT CONFIRMED", {k: v for k, v in res.items() if isinstance(v, bool)})
