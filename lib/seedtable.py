#!/usr/bin/env python3
"""Prints the markdown table of seeded changes (seeded/*/*/meta.json) for DESIGN.md section 9.4."""
import json, glob, os, re
rows = []
for f in sorted(glob.glob(os.path.join(os.path.dirname(os.path.abspath(__file__)), "..", "seeded", "*", "*", "meta.json"))):
    m = json.load(open(f))
    name = os.path.basename(os.path.dirname(f))
    summ = re.sub(r"\s+", " ", m.get("summary", ""))[:170]
    needs = re.sub(r"\s+", " ", m.get("needs", ""))[:150]
    res = re.sub(r"\s+", " ", str(m.get("result", "")))[:260]
    conf = m.get("confirmed", {}).get("all_confirmed")
    rows.append((name, summ, needs, res, "yes" if conf else ("no" if conf is False else "-")))
caught = sum(1 for r in rows if not r[3].startswith("MISSED"))
first_missed = sum(1 for r in rows if "MISSED" in r[3] or "missed" in r[3].lower())
print("%d seeded changes; %d reported by a check on the final tree; %d of them were missed at first and led to a stronger check.\n" % (len(rows), caught, first_missed))
print("| seed | change | needs | result | confirmed (tests pass, demo fails with / passes without) |")
print("|---|---|---|---|---|")
for r in rows:
    print("| %s | %s | %s | %s | %s |" % tuple(x.replace("|", "\\|") for x in r))
