#!/usr/bin/env python3
"""Prints the markdown table of seeded changes (seeded/*/*/meta.json) for DESIGN.md section 9.4."""
import json, glob, os, re
rows = []
for f in sorted(glob.glob(os.path.join(os.path.dirname(os.path.abspath(__file__)), "..", "seeded", "*", "*", "meta.json"))):
    m = json.load(open(f))
    name = os.path.basename(os.path.dirname(f))
    summ = re.sub(r"\s+", " ", m.get("summary", ""))[:170]
    needs = re.sub(r"\s+", " ", m.get("needs", ""))[:150]
    fin = m.get("final", {})
    first = re.sub(r"\s+", " ", str(m.get("result", "")))
    missed_first = ("missed" in first.lower()) or any(k.startswith("first") or k in ("strengthening", "added", "what_was_added", "checks_run_after_strengthening") for k in m)
    if fin.get("caught_by"):
        what = "; ".join(w for v in fin["checks"].values() for w in v.get("what", [])[:1])
        res = "caught by `./check %s`: %s" % (", ".join(fin["caught_by"]), re.sub(r"\s+", " ", what)[:170])
    elif fin.get("caught_without_failing_input_by"):
        res = "reported by %s without a failing input (broken obligation/correspondence)" % ", ".join(fin["caught_without_failing_input_by"])
    elif fin:
        res = "MISSED"
    else:
        res = first[:200]
    if missed_first and not res.startswith("MISSED"):
        res += " — first missed, the check was strengthened (see meta.json)"
    conf = m.get("confirmed", {}).get("all_confirmed")
    rows.append((name, summ, needs, res, "yes" if conf else ("no" if conf is False else "-")))
caught = sum(1 for r in rows if not r[3].startswith("MISSED"))
first_missed = sum(1 for r in rows if "first missed" in r[3])
print("%d seeded changes; %d reported by a check on the final tree; %d of them were missed at first and led to a stronger check.\n" % (len(rows), caught, first_missed))
print("| seed | change | needs | result | confirmed (tests pass, demo fails with / passes without) |")
print("|---|---|---|---|---|")
for r in rows:
    print("| %s | %s | %s | %s | %s |" % tuple(x.replace("|", "\\|") for x in r))
