#!/bin/bash
# runs every thorough check (used with `vp run --with-repo`), THOROUGH_P at a time (default 2); prints one verdict line per property
cd "$(dirname "$0")/.."
[ -n "${VP_RUN_REPO:-}" ] && export VERIF_REPO=$VP_RUN_REPO
./setup.sh > setup.log 2>&1
ls checks/C*.py | sed 's/.*\(C[0-9]*\).py/\1/' | xargs -P ${THOROUGH_P:-2} -I{} sh -c '/usr/bin/time -f "{} wall %es" ./check {} --tier thorough 2>&1 | grep -E "^(VIOLATION|C[0-9]+:|C[0-9]+ wall)" | cut -c1-300'
