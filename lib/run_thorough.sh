#!/bin/bash
# runs every thorough check in sequence (used with `vp run --with-repo`); prints one verdict line per property
cd "$(dirname "$0")/.."
[ -n "${VP_RUN_REPO:-}" ] && export VERIF_REPO=$VP_RUN_REPO
./setup.sh > setup.log 2>&1
for id in $(ls checks/C*.py | sed 's/.*\(C[0-9]*\).py/\1/'); do
  /usr/bin/time -f "$id wall %es" ./check $id --tier thorough 2>&1 | grep -E "^(VIOLATION|C[0-9]+:|C[0-9]+ wall)" | cut -c1-300
done
