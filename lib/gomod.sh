#!/bin/bash
# Regenerates /verif/go/go.mod and go.sum from /repo's current go.mod/go.sum (offline).
set -e
REPO=${VERIF_REPO:-/repo}
cd "$(dirname "$0")/../go/impl"
{
  echo "module verifgo"
  echo
  echo "go 1.22"
  echo
  echo "require github.com/Ptt-official-app/go-pttbbs v0.0.0"
  # the repository's own requirements, verbatim
  awk '/^require \(/{p=1;print;next} p&&/^\)/{p=0;print;next} p{print}' "$REPO/go.mod"
  echo
  echo "replace github.com/Ptt-official-app/go-pttbbs => $REPO"
} > go.mod.new
if ! cmp -s go.mod.new go.mod 2>/dev/null; then mv go.mod.new go.mod; else rm go.mod.new; fi
if [ ! -f go.sum ] || [ "$REPO/go.sum" -nt go.sum ]; then cp "$REPO/go.sum" go.sum; fi
