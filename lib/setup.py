import os, sys
sys.path.insert(0, os.path.dirname(os.path.abspath(__file__)))
import vf

vf.ensure_gosync()
props = sorted(f[:-2] for f in os.listdir(os.path.join(vf.COQ, "Props")) if f.endswith(".v"))
ok, log = vf.coq_make(["Props/%s.vo" % p for p in props] + ["Model/%s.vo" % f[:-2] for f in sorted(os.listdir(os.path.join(vf.COQ, "Model"))) if f.endswith(".v")])
if not ok:
    # not fatal: each check reports its own broken obligations; but show it
    print(log[-3000:])
    print("setup: some Coq targets did not build")
vf.build_impl()
for f in sorted(os.listdir(os.path.join(vf.COQ, "Extract"))):
    if f.endswith(".v"):
        try:
            vf.build_model(f[:-2])
        except SystemExit as e:
            print("setup: model driver %s: %s" % (f, e))
print("setup done: %s" % " ".join(props))
