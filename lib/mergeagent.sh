#!/bin/bash
# lib/mergeagent.sh <X>  — merge branch w<X> of /verif into main, cherry-pick w<X> of /repo onto main,
# rewrite the commit ids quoted in hooks/*.txt and findings/*.txt to the cherry-picked ones, recompose the manifest.
set -u
X="$1"
cd /verif
base=$(git -C /repo merge-base main w$X)
old=$(git -C /repo rev-list --reverse $base..w$X)
declare -A map
for c in $old; do
  subj=$(git -C /repo log -1 --format=%s $c)
  # skip commits already present on main with the same subject and patch-id
  pid=$(git -C /repo show $c | git patch-id --stable | cut -d' ' -f1)
  found=""
  for m in $(git -C /repo rev-list $base..main); do
    mp=$(git -C /repo show $m | git patch-id --stable | cut -d' ' -f1)
    if [ "$mp" = "$pid" ]; then found=$m; break; fi
  done
  if [ -z "$found" ]; then
    if ! git -C /repo cherry-pick $c >/tmp/cp.log 2>&1; then
      echo "CONFLICT cherry-picking $c ($subj)"; cat /tmp/cp.log | tail -5; echo "resolve in /repo, 'git cherry-pick --continue', then rerun"; exit 1
    fi
    found=$(git -C /repo rev-parse HEAD)
  fi
  map[$c]=$found
  echo "repo: ${c:0:7} -> ${found:0:7}  $subj"
done
git merge --no-commit --no-ff w$X >/tmp/merge.log 2>&1
for f in MANIFEST.json MANIFEST.hooks KNOWN_FINDINGS.txt; do git checkout --ours $f 2>/dev/null; git add $f 2>/dev/null; done
for f in $(git diff --name-only --diff-filter=U | grep '^seeded/.*meta.json$'); do git checkout --theirs "$f"; git add "$f"; echo "took theirs: $f"; done
for f in $(git diff --name-only --diff-filter=U | grep '^evidence/'); do git checkout --theirs "$f"; git add "$f"; done
if git diff --name-only --diff-filter=U | grep -q .; then echo "verif merge conflicts:"; git diff --name-only --diff-filter=U; exit 1; fi
for c in "${!map[@]}"; do
  n=${map[$c]}
  for len in 7 8 9 10 12 40; do
    grep -rl "${c:0:$len}" hooks findings manifest 2>/dev/null | xargs -r sed -i "s/\b${c:0:$len}\b/${n:0:7}/g"
  done
done
python3 lib/mkmanifest.py
git add -A
git commit -qm "merge w$X" && echo "verif: merged w$X"
