#!/usr/bin/env python3
"""lib/harmround.py import            — copy the behaviour-preserving changes written by the sub-agents (/tmp/s/<id>n/out/k) to harmless/<id>/<id>-n<k>/
lib/harmround.py run <shards>      — apply each to a private copy of /repo, run the quick check of every property one of whose anchor
                                     files it touches (always including its own), record exit codes and VIOLATION lines in meta.json["checks"]
A harmless change must leave every check at exit 0; anything else is a false alarm to be looked at (DESIGN 9.5)."""
import json, os, re, subprocess, sys, glob, shutil
ROOT = "/verif"
def anchors():
    m = {}
    for l in open(os.path.join(ROOT, "properties.jsonl")):
        p = json.loads(l)
        m[p["id"]] = set(re.split(r"[: ]", f)[0] for f in p["anchors"]["files"])
    return m
def touched(patch):
    return set(re.findall(r"^\+\+\+ b/(\S+)", open(patch).read(), re.M))
def targets(d):
    pid = os.path.basename(d).split("-")[0]
    t = touched(os.path.join(d, "patch.diff"))
    ids = [pid] + sorted(i for i, fs in anchors().items() if i != pid and fs & t)
    return ids
if sys.argv[1] == "import":
    for src in sorted(glob.glob("/tmp/s/C*n/out/[0-9]")):
        pid = src.split("/")[3][:3]; k = os.path.basename(src)
        if not os.path.exists(src + "/patch.diff") or not os.path.exists(src + "/meta.json"): continue
        d = os.path.join(ROOT, "harmless", pid, "%s-n%s" % (pid, k)); os.makedirs(d, exist_ok=True)
        if os.path.exists(d + "/meta.json"): continue          # never overwrite recorded results
        shutil.copy(src + "/patch.diff", d); shutil.copy(src + "/meta.json", d)
        print(d, targets(d))
elif sys.argv[1] == "shard":
    root, repo = sys.argv[2], sys.argv[3]
    for d in sys.argv[4:]:
        name = os.path.basename(d)
        r = subprocess.run(["git", "-C", repo, "apply", os.path.join(d, "patch.diff")], stdout=subprocess.PIPE, stderr=subprocess.STDOUT, text=True)
        res = {}
        if r.returncode: res = {"apply": r.stdout[-300:]}
        else:
            for cid in targets(d):
                p = subprocess.run(["timeout", "-k", "5", "1500", "./check", cid, "--tier", "quick"], cwd=root, env=dict(os.environ, VERIF_REPO=repo),
                                   stdout=subprocess.PIPE, stderr=subprocess.STDOUT, text=True)
                res[cid] = {"exit": p.returncode, "violations": [l[:400] for l in p.stdout.split("\n") if l.startswith("VIOLATION")],
                            "what": [l[2:300] for l in p.stdout.split("\n") if l.startswith("# ")][:4], "last": p.stdout.strip().split("\n")[-1][:200]}
        subprocess.run("git -C %s checkout -- . && git -C %s clean -fdq" % (repo, repo), shell=True)
        subprocess.run("git checkout -- evidence", shell=True, cwd=root)
        m = json.load(open(os.path.join(ROOT, "harmless", name[:3], name, "meta.json"))); m["checks"] = res
        json.dump(m, open(os.path.join(ROOT, "harmless", name[:3], name, "meta.json"), "w"), indent=1)
        bad = [c for c, v in res.items() if c == "apply" or v["exit"] != 0]
        print(name, "quiet: " + ",".join(res) if not bad else "ALARM by " + ",".join(bad), flush=True)
elif sys.argv[1] == "run":
    n = int(sys.argv[2]); ds = sorted(glob.glob(os.path.join(ROOT, "harmless", "*", "*")))
    if len(sys.argv) > 3: ds = [d for d in ds if os.path.basename(d) in sys.argv[3:] or os.path.basename(d)[:3] in sys.argv[3:]]
    shutil.rmtree("/tmp/hr", ignore_errors=True); os.makedirs("/tmp/hr")
    ps = []
    for k in range(n):
        os.makedirs("/tmp/hr/%d" % k); subprocess.run("cp -a /verif /tmp/hr/%d/verif && cp -a /repo /tmp/hr/%d/repo" % (k, k), shell=True)
        ps.append(subprocess.Popen([sys.executable, "/tmp/hr/%d/verif/lib/harmround.py" % k, "shard", "/tmp/hr/%d/verif" % k, "/tmp/hr/%d/repo" % k] + ds[k::n]))
    for p in ps: p.wait()
    shutil.rmtree("/tmp/hr", ignore_errors=True)
