#!/bin/bash
# lib/seedround_par.sh <round letter> <shards> [ids...] — lib/seedround.py --round=<r> on private copies of /verif and /repo
# (under /tmp/rr, removed afterwards), property ids dealt round-robin; the imported seeded/<id>/<id>-<r>k directories are copied back.
set -u
R="$1"; N="$2"; shift 2
ids=("$@"); [ ${#ids[@]} -eq 0 ] && ids=($(ls /verif/seeded))
rm -rf /tmp/rr; mkdir -p /tmp/rr
for k in $(seq 0 $((N-1))); do
  mkdir -p /tmp/rr/$k; cp -a /verif /tmp/rr/$k/verif; cp -a /repo /tmp/rr/$k/repo
  mine=(); i=0; for id in "${ids[@]}"; do [ $((i % N)) -eq $k ] && mine+=($id); i=$((i+1)); done
  ( cd /tmp/rr/$k/verif && for id in "${mine[@]}"; do extra=""; SEED_ROOT=/tmp/rr/$k/verif SEED_REPO=/tmp/rr/$k/repo VERIF_REPO=/tmp/rr/$k/repo python3 lib/seedround.py $id --round=$R $id; done > /tmp/rr/$k.log 2>&1 ) &
done
wait
for k in $(seq 0 $((N-1))); do
  for d in /tmp/rr/$k/verif/seeded/*/*-$R[0-9]; do [ -d "$d" ] || continue; id=$(basename $(dirname $d)); mkdir -p /verif/seeded/$id; rm -rf /verif/seeded/$id/$(basename $d); cp -a $d /verif/seeded/$id/; done
  cat /tmp/rr/$k.log
  rm -rf /tmp/rr/$k
done
